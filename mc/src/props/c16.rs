//! C16 — a failed or completed stream stays failed or completed (E2 continued past errors / past the size).
use super::c05;
use super::corpus;
use super::stream_graph::{self, Mode};
use crate::cases::SizeOpt;
use crate::common::{Ctx, Tier};
use crate::explore::par_for;
use serde_json::json;
use std::sync::Mutex;
use std::time::Instant;

pub fn run(tier: Tier) -> i32 {
    let ctx = Ctx::new("C16", "model_checking", tier);
    ctx.set_rule("E2 on corrupt, over-long and size-terminated inputs: the Stream state graph (all chunkings) is continued past failure and completion. From EVERY failed node (a write returned Err): get_output() is None, finish() is Err and delivers nothing, every further write (junk, the remaining input, repeated) returns Ok(0) and the sink is unchanged. From EVERY node in which the declared size has been reached (finish Ok with exactly that many bytes): every further write returns Ok(0) and leaves the sink unchanged, finish still Ok with the same bytes. flush() is Ok in every node; no edge may panic. distinct_nontrivial = inputs with at least one failed or completed node.");
    let all = c05::inputs(ctx.seed, tier);
    // keep: substitutions (corrupt), trailing variants (over-long), sized streams
    let mut extra: Vec<c05::Input> = Vec::new();
    // over-long streams: the header size field lowered to every value (so that it falls on symbol boundaries and
    // strictly inside copies), the stream bytes after that point are still offered
    for it in corpus::valid_items(ctx.seed, true) {
        if !it.sized {
            continue;
        }
        if let Some(b) = it.build(corpus::OptKind::Header) {
            let n = b.expect.len() as u64;
            if b.bytes.len() > 200 || n > tier.pick(200, 1000) {
                continue;
            }
            let stride = tier.pick(3u64, 1u64);
            let mut sv: Vec<u64> = (0..n).filter(|v| v % stride == 0 || *v + 3 > n).collect();
            sv.push(n + 1);
            for s in sv {
                let mut x = b.bytes.clone();
                x[5..13].copy_from_slice(&s.to_le_bytes());
                extra.push(c05::Input { label: format!("{} with header size field lowered {} -> {}", it.name, n, s), bytes: x, opts: b.opts, max_sym: 0 });
            }
        }
    }
    // header fields with their own validation: the properties byte set to every illegal value 225..=255 (and the two
    // legal neighbours 223, 224) in a short stream - the write that completes the header must fail, and latch
    for it in corpus::valid_items(ctx.seed, false).into_iter().filter(|it| it.name == "lits12+size" || it.name == "mix+marker") {
        for kind in [corpus::OptKind::Header, corpus::OptKind::ProvidedSome, corpus::OptKind::HeaderProvidedSome] {
            if let Some(b) = it.build(kind) {
                for v in tier.pick(vec![223u8, 224, 225, 226, 255], (223..=255u8).collect()) {
                    let mut x = b.bytes.clone();
                    x[0] = v;
                    extra.push(c05::Input { label: format!("{} [{:?}] byte 0 (properties) := {}", it.name, kind, v), bytes: x, opts: b.opts, max_sym: 0 });
                }
            }
        }
    }
    // corrupt only after the 4096-byte window has wrapped twice: a copy whose distance is valid for the bytes produced
    // but not for the dictionary (just above it, within dictionary + cursor, far above)
    for it in corpus::valid_items(ctx.seed, true).into_iter().filter(|it| it.name == "wraps-4096-window+size") {
        for d in [4097u32, 4200, 8000] {
            let mut prog = it.prog.clone();
            prog.extend([crate::refmodel::enc::Sym::M(d, 5), crate::refmodel::enc::Sym::L(0x11)]);
            let e = crate::refmodel::enc::encode(it.lc, it.lp, it.pb, 1 << 20, &prog);
            if e.bad.is_some() {
                continue;
            }
            let bytes = crate::refmodel::enc::lzma_file(it.lc, it.lp, it.pb, 4096, Some(e.expect.len() as u64), &e.payload);
            extra.push(c05::Input { label: format!("{} + a copy at distance {} (dictionary 4096, {} bytes produced)", it.name, d, e.expect.len() - 6), bytes, opts: crate::cases::Opts::default(), max_sym: 0 });
        }
    }
    // payloads of 0..2 bytes whose size is provided / announced, followed by a few other bytes: the size is reached inside
    // whatever the decoder buffered together with the header
    for n in 0..3usize {
        use crate::refmodel::enc::{self, Sym};
        let prog: Vec<Sym> = (0..n).map(|i| Sym::L(0x41 + i as u8)).collect();
        let e = enc::encode(3, 0, 2, u64::MAX, &prog);
        for tr in [vec![0u8], vec![0xFF; 2], vec![0u8; 5], vec![0x5D, 0, 0, 0x10, 0, 1, 2, 3], vec![7u8; 14]] {
            let mut x5 = enc::lzma_header(3, 0, 2, 4096, None);
            x5.truncate(5);
            x5.extend_from_slice(&e.payload);
            x5.extend_from_slice(&tr);
            extra.push(c05::Input { label: format!("{}-byte payload, size provided (5-byte header), {} further byte(s)", n, tr.len()), bytes: x5, opts: crate::cases::Opts { size: SizeOpt::Provided(Some(n as u64)), ..crate::cases::Opts::default() }, max_sym: 0 });
            let mut x13 = enc::lzma_file(3, 0, 2, 4096, Some(n as u64), &e.payload);
            x13.extend_from_slice(&tr);
            extra.push(c05::Input { label: format!("{}-byte payload, size in header, {} further byte(s)", n, tr.len()), bytes: x13, opts: crate::cases::Opts::default(), max_sym: 0 });
        }
    }
    let mut k = 0usize;
    for i in all.iter().filter(|i| i.label.contains(" byte ")) {
        k += 1;
        if k % tier.pick(4, 1) == 0 {
            let mut o = i.opts;
            o.allow_incomplete = true;
            extra.push(c05::Input { label: format!("{} [allow_incomplete]", i.label), bytes: i.bytes.clone(), opts: o, max_sym: 0 });
        }
    }
    let mut ins: Vec<&c05::Input> = all.iter().filter(|i| i.label.contains(" byte ") || i.label.contains("trailing") || i.label.contains("+size") || i.label.contains("repo file")).collect();
    ins.extend(extra.iter());
    let t0 = Instant::now();
    let agg = Mutex::new((0u64, 0u64, 0u64, 0u64));
    par_for(ins.len() as u64, |i| {
        if ctx.over_budget() {
            ctx.capped.store(true, std::sync::atomic::Ordering::SeqCst);
            return;
        }
        let inp = ins[i as usize];
        // size in effect as the decoder will see it
        let size = match inp.opts.size {
            SizeOpt::Header => {
                if inp.bytes.len() >= 13 {
                    let s = u64::from_le_bytes(inp.bytes[5..13].try_into().unwrap());
                    if s == u64::MAX {
                        None
                    } else {
                        Some(s)
                    }
                } else {
                    None
                }
            }
            SizeOpt::HeaderProvided(x) | SizeOpt::Provided(x) => x,
        };
        let g = stream_graph::explore(&ctx, &inp.bytes, &inp.opts, &Mode::Latch { size_in_effect: size }, &inp.label);
        ctx.eval(g.edges);
        if g.failed_nodes + g.completed_nodes > 0 {
            ctx.nontriv(1);
        }
        let mut a = agg.lock().unwrap();
        a.0 += g.states;
        a.1 += g.edges;
        a.2 += g.failed_nodes;
        a.3 += g.completed_nodes;
        if i % 61 == 0 {
            ctx.sample(json!({"input": inp.label, "len": inp.bytes.len(), "graph_states": g.states, "graph_edges": g.edges, "failed_nodes": g.failed_nodes, "completed_nodes": g.completed_nodes}));
        }
    });
    let a = agg.lock().unwrap();
    ctx.set_extra("failed_nodes_continued", json!(a.2));
    ctx.set_extra("completed_nodes_continued", json!(a.3));
    ctx.scope_done(&format!("latch-graphs/{}-inputs", ins.len()), ins.len() as u64, t0, &format!("{} states, {} edges, {} failed and {} completed nodes continued", a.0, a.1, a.2, a.3));
    // ---------------------------------------------------------------- long inputs (linear): damage far into a stream that is handed over
    // in very large writes (the failing symbol lies beyond the first 64 KiB of a single write), windows of exactly 1 MiB
    // that wrap; after the failure: get_output None, write Ok(0), write_all Err, finish Err, sink unchanged
    {
        use crate::cases::{run_case, Case, Hex, Opts, SOp, Sk};
        use crate::refmodel::enc::{self, Sym};
        let t1 = Instant::now();
        let mut items: Vec<(String, Case, bool)> = Vec::new();
        let nlit = tier.pick(200_000usize, 600_000usize);
        let lit: Vec<Sym> = (0..nlit as u32).map(|i| Sym::L((i.wrapping_mul(2654435761) >> 13) as u8)).collect();
        let e = enc::encode(3, 0, 2, 1 << 16, &lit);
        let file = enc::lzma_file(3, 0, 2, 1 << 16, Some(nlit as u64), &e.payload);
        let probes = |first: Vec<SOp>| -> Vec<SOp> {
            let mut v = first;
            v.extend([SOp::GetOutput, SOp::Write(Hex(vec![0x55; 9])), SOp::StdWriteAll(Hex(vec![0xAA; 9])), SOp::Write(Hex(vec![0; 70_000])), SOp::Finish]);
            v
        };
        for dmg in [30_000usize, 66_000, file.len() * 3 / 4, file.len() - 100] {
            let mut x = file.clone();
            for b in &mut x[dmg..dmg + 64] {
                *b ^= 0x5A;
            }
            for piece in [x.len(), 100_000, 65_537, 65_536, 4096] {
                let first: Vec<SOp> = x.chunks(piece).map(|c| SOp::WriteAll(Hex(c.to_vec()))).collect();
                items.push((format!("{} literals, 64 bytes damaged at input offset {}, written in pieces of {} bytes", nlit, dmg, piece), Case::Stream { opts: Opts::default(), sk: Sk::default(), ops: probes(first) }, false));
            }
        }
        // a valid stream whose SINK refuses the first window hand-over (Other / WouldBlock / TimedOut): the write that hits
        // it fails, and the stream is failed for good like after any other failed write
        {
            let prog: Vec<Sym> = (0..10_000u32).map(|i| Sym::L((i * 31 + i / 7) as u8)).collect();
            let e2 = enc::encode(3, 0, 2, 4096, &prog);
            let f2 = enc::lzma_file(3, 0, 2, 4096, None, &{ let mut q = prog.clone(); q.push(Sym::E); enc::encode(3, 0, 2, 4096, &q).payload });
            let _ = e2;
            for kind in [0u8, 2, 3] {
                for k in [0usize, 1] {
                    for piece in [512usize, 37, f2.len()] {
                        let first: Vec<SOp> = f2.chunks(piece).map(|c| SOp::WriteAll(Hex(c.to_vec()))).collect();
                        items.push((format!("10000 literals through a 4096-byte window in {}-byte writes, sink write #{} fails with error kind {}", piece, k, kind), Case::Stream { opts: Opts::default(), sk: Sk { fail_write_at: Some(k), fail_kind: kind, ..Sk::default() }, ops: probes(first) }, false));
                    }
                }
            }
        }
        // valid streams through windows of exactly 1 MiB / 2 MiB that wrap
        for dict in [1u32 << 20, 2 << 20] {
            let total = dict as usize + 4096 + 77;
            let mut prog: Vec<Sym> = (0..300u32).map(|b| Sym::L((b * 67 + b / 7 + 3) as u8)).collect();
            let mut produced = 300usize;
            let mut k = 0u32;
            while produced < total {
                let l = (total - produced).min(273 - (k as usize * 13) % 100);
                if l >= 2 {
                    prog.push(Sym::M(1 + (k * 31) % 290, l as u32));
                    produced += l;
                } else {
                    prog.push(Sym::L(k as u8));
                    produced += 1;
                }
                k += 1;
            }
            let e = enc::encode(3, 0, 2, dict as u64, &prog);
            let f = enc::lzma_file(3, 0, 2, dict, Some(e.expect.len() as u64), &e.payload);
            for piece in [4096usize, f.len()] {
                let mut ops: Vec<SOp> = f.chunks(piece).map(|c| SOp::WriteAll(Hex(c.to_vec()))).collect();
                ops.extend([SOp::Write(Hex(vec![1, 2, 3])), SOp::Finish]);
                items.push((format!("{} bytes through a window of exactly {} bytes, pieces of {}", e.expect.len(), dict, piece), Case::Stream { opts: Opts::default(), sk: Sk::default(), ops }, true));
            }
        }
        // small corrupt inputs whose failing call is a gathered write (write_vectored with two slices)
        for inp in ins.iter().filter(|i| i.label.contains(" byte ") && i.bytes.len() < 200).take(tier.pick(150, 2000)) {
            let n = inp.bytes.len();
            for cut in [n / 3, n / 2] {
                let first = vec![SOp::WriteVectoredAll(vec![Hex(inp.bytes[..cut].to_vec()), Hex(inp.bytes[cut..].to_vec())])];
                items.push((format!("{} offered through write_vectored as two slices cut at {}", inp.label, cut), Case::Stream { opts: inp.opts, sk: Sk::default(), ops: probes(first) }, false));
            }
        }
        par_for(items.len() as u64, |i| {
            let (label, case, valid) = &items[i as usize];
            let o = run_case(case);
            ctx.eval(1);
            ctx.nontriv(1);
            if o.ops.iter().any(|r| r.v.is_panic()) {
                ctx.violation(case, &format!("{}: no call panics", label), &o, None);
                return;
            }
            if *valid {
                // size reached: the extra write consumes nothing, finish Ok
                let k = o.ops.len();
                let ok = o.ops[..k - 2].iter().all(|r| r.v.is_ok()) && o.ops[k - 2].v.is_ok() && o.ops[k - 2].n == Some(0) && o.ops[k - 1].v.is_ok() && o.ops[k - 3].sink_len == o.ops[k - 2].sink_len;
                if !ok {
                    ctx.violation(case, &format!("{}: every write Ok, a further write after the declared size consumes nothing, finish Ok", label), &o, None);
                }
                return;
            }
            let Some(f) = o.ops.iter().position(|r| r.v.is_err()) else {
                if label.contains("write_vectored") {
                    return; // this substitution does not make a write fail (it surfaces at finish, or not at all)
                }
                ctx.violation(case, &format!("{}: some write reports the damage", label), &o, None);
                return;
            };
            if label.contains("write_vectored") && f >= o.ops.len() - 5 {
                return; // the gathered write itself succeeded; only a probe failed
            }
            let k = o.ops.len();
            let sink_at_failure = o.ops[f].sink_len;
            let later_writes_ok0 = o.ops[f + 1..k - 5].iter().all(|r| r.v.is_ok() && r.n == Some(0));
            let (g, w, wa, wbig, fin) = (&o.ops[k - 5], &o.ops[k - 4], &o.ops[k - 3], &o.ops[k - 2], &o.ops[k - 1]);
            let ok = later_writes_ok0 && g.v.is_ok() && g.n.is_none() && w.v.is_ok() && w.n == Some(0) && wa.v.is_err() && wbig.v.is_ok() && wbig.n == Some(0) && fin.v.is_err() && o.ops[f..].iter().all(|r| r.sink_len == sink_at_failure);
            if !ok {
                ctx.violation(case, &format!("{}: after the write that failed (call #{}), get_output is None, every write returns Ok(0), write_all and finish are errors, and the sink keeps its {} bytes", label, f, sink_at_failure), &o, None);
            }
        });
        ctx.scope_done("long-inputs", items.len() as u64, t1, "damage beyond the first 64 KiB of a single write; windows of exactly 1 MiB and 2 MiB");
    }
    ctx.finish()
}

//! C11 — decoders consume exactly the compressed payload and nothing after it (E3 over reader kinds x trailers).
use super::c01::automaton_alphabet;
use super::c02::chunk_kinds;
use crate::cases::{run_case, Case, Fmt, Hex, Opts, Rd, SizeOpt, Sk};
use crate::common::{brief_bytes, Ctx, Tier};
use crate::explore::{count_upto, nth_seq, par_for};
use crate::refmodel::enc::{self, prog_str, Sym};
use crate::refmodel::lzma2::{self, chunks_str, Chunk};
use crate::refmodel::xz;
use serde_json::json;
use std::sync::atomic::Ordering;
use std::time::Instant;

fn readers(n: usize, tier: Tier) -> Vec<Rd> {
    let mut v = vec![Rd::default()];
    for cap in 1..=tier.pick(4usize, 12usize) {
        v.push(Rd { bufreader: cap, ..Rd::default() });
    }
    v.push(Rd { bufreader: 8192, ..Rd::default() });
    v.push(Rd { period: 1, ..Rd::default() }); // byte at a time
    v.push(Rd { period: 3, bufreader: 2, ..Rd::default() });
    v.push(Rd { cuts: vec![n / 2], ..Rd::default() });
    v
}

pub fn run(tier: Tier) -> i32 {
    let ctx = Ctx::new("C11", "exploration", tier);
    ctx.set_rule("E3: every payload of the stated spaces (size-bounded LZMA programs of the C01 automaton scope up to depth d; LZMA2 chunk sequences up to depth 2) x trailer {none, 00, FF, 00x6, a second valid payload} x reader {slice, BufReader capacity 1..8 and 8192 over a source, byte-at-a-time source, cut source}: Ok, exact output, and the reader's logical position is exactly the end of the payload (the trailer is neither read nor required). Converse: marker-terminated .lzma and .xz files with any non-empty trailer => Err. distinct_nontrivial = cases with a non-empty trailer.");
    let seed = ctx.seed;
    let trailers = |second: &[u8]| -> Vec<(&'static str, Vec<u8>)> { vec![("none", vec![]), ("00", vec![0]), ("ff", vec![0xFF]), ("00x6", vec![0; 6]), ("00x64", vec![0; 64]), ("second-payload", second.to_vec())] };

    // ------------------------------------------------------------ LZMA, size-bounded
    {
        let depth = tier.pick(4usize, 5usize);
        let sigma = automaton_alphabet(seed);
        let total = count_upto(sigma.len(), depth);
        let name = format!("lzma-size-bounded/depth<={}", depth);
        if ctx.may_start(&name) {
            let t0 = Instant::now();
            let cases = std::sync::atomic::AtomicU64::new(0);
            // besides setup . Sigma^<=d: the degenerate payloads (empty output, one literal, two literals)
            let mut edge: Vec<Vec<Sym>> = vec![vec![], vec![Sym::L(0x41)], vec![Sym::L(0x41), Sym::L(0x42)], vec![Sym::L(0); 300]];
            // payloads whose output is longer than the 4096-byte dictionary of the header (the window wraps, incl. a match that
            // ends exactly at the window end) and longer than 64 KiB
            for it in super::corpus::valid_items(seed, true) {
                if it.name == "wraps-4096-window+size" || it.name == "match-ends-at-window-end+size" {
                    edge.push(it.prog.clone());
                }
            }
            {
                let mut big: Vec<Sym> = (0..200u32).map(|i| Sym::L((i * 13 + 7) as u8)).collect();
                for k in 0..260u32 {
                    big.push(Sym::M(1 + (k * 17) % 190, 273 - (k % 9)));
                }
                edge.push(big);
            }
            // payloads of more than 4 KiB and more than 8 KiB of INPUT (incompressible literals): the end of the payload lies in a
            // later refill of an 8 KiB BufReader, or deep inside one large slice
            for nlit in [5000u32, 9000, 20000] {
                edge.push((0..nlit).map(|i| Sym::L((i.wrapping_mul(2654435761) >> 13) as u8)).collect());
            }
            // payloads whose LAST symbol is a match at every distance-slot boundary up to 4096 (distances from 5 on are coded with
            // reverse bit trees, from 128 on with direct and alignment bits) x six length classes x three salts: the last bit of
            // the last symbol decides whether one more byte belongs to the payload
            for d in [5u32, 6, 7, 8, 9, 12, 13, 16, 17, 24, 25, 32, 33, 48, 49, 64, 65, 96, 97, 127, 128, 129, 192, 193, 256, 257, 384, 385, 512, 513, 768, 1024, 1025, 1536, 2048, 2049, 3072, 4000, 4096] {
                for l in [2u32, 3, 9, 10, 18, 273] {
                    for salt in 0..tier.pick(2u32, 6u32) {
                        let mut p: Vec<Sym> = (0..8u32).map(|k| Sym::L((k * 29 + salt * 53 + 1) as u8)).collect();
                        let mut produced = 8u32;
                        while produced < d {
                            let len = (d - produced).clamp(2, 273);
                            p.push(Sym::M(1 + (produced + salt) % 8, len));
                            produced += len;
                        }
                        if salt % 2 == 1 {
                            p.push(Sym::L(0x5A));
                        }
                        p.push(Sym::M(d, l));
                        edge.push(p);
                    }
                }
            }
            let nedge = edge.len() as u64;
            par_for((total + nedge) * 2, |i| {
                let (lc, lp, pb) = [(3u32, 0u32, 2u32), (0, 2, 0)][(i % 2) as usize];
                let prog: Vec<Sym> = if i / 2 < nedge {
                    edge[(i / 2) as usize].clone()
                } else {
                    let seq = nth_seq(sigma.len(), depth, i / 2 - nedge);
                    let mut prog: Vec<Sym> = (0..4).map(|k| Sym::L(0x61 + k * 7)).collect();
                    prog.extend(seq.iter().map(|&k| sigma[k]));
                    prog
                };
                let e = enc::encode(lc, lp, pb, u64::MAX, &prog);
                if e.bad.is_some() || (e.expect.len() > 4096 && prog.iter().any(|s| matches!(s, Sym::M(d, _) if *d > 4096))) {
                    return;
                }
                let n = e.expect.len() as u64;
                for (hk, opts, file) in [
                    ("header", Opts::default(), enc::lzma_file(lc, lp, pb, 4096, Some(n), &e.payload)),
                    ("header-ignored", Opts { size: SizeOpt::HeaderProvided(Some(n)), ..Opts::default() }, enc::lzma_file(lc, lp, pb, 4096, Some(n + 2), &e.payload)),
                    ("provided", Opts { size: SizeOpt::Provided(Some(n)), ..Opts::default() }, {
                        let mut f = enc::lzma_header(lc, lp, pb, 4096, None);
                        f.truncate(5);
                        f.extend_from_slice(&e.payload);
                        f
                    }),
                ] {
                    for (tn, tr) in trailers(&e.payload) {
                        let mut input = file.clone();
                        input.extend_from_slice(&tr);
                        for rd in readers(input.len(), tier) {
                            let case = Case::Dec { fmt: Fmt::Lzma, opts, input: Hex(input.clone()), rd: rd.clone(), sk: Sk { chunk: 0, ..Sk::default() } };
                            // force the harness reader path even for the plain slice by using an (inert) cut beyond the end
                            let o = run_case(&case);
                            cases.fetch_add(1, Ordering::Relaxed);
                            ctx.eval(1);
                            if !tr.is_empty() {
                                ctx.nontriv(1);
                            }
                            if !(o.v.is_ok() && o.out.0 == e.expect && o.consumed == file.len()) {
                                ctx.violation(&case, &format!("program [{}] ({} size) + trailer {}: Ok, output {} and the reader left exactly at byte {} (start of the trailer)", prog_str(&prog), hk, tn, brief_bytes(&e.expect), file.len()), &o, None);
                            }
                        }
                    }
                }
                // the same program followed by an end-of-stream marker in the SAME coder stream, with the size declared as well:
                // the decode is size-bounded, so where the reader is left is a property of the bytes alone - just after the
                // last byte the sized payload needs (or, under the other reading of "payload", just after the marker) - and
                // never of how much the source shows per refill
                {
                    let mut pm = prog.clone();
                    pm.push(Sym::E);
                    let e2 = enc::encode(lc, lp, pb, u64::MAX, &pm);
                    if e2.bad.is_none() {
                        let file2 = enc::lzma_file(lc, lp, pb, 4096, Some(n), &e2.payload);
                        let stop_a = 13 + e.payload.len();
                        let stop_b = file2.len();
                        let mut seen: Option<usize> = None;
                        for rd in readers(file2.len(), tier) {
                            let case = Case::Dec { fmt: Fmt::Lzma, opts: Opts::default(), input: Hex(file2.clone()), rd: rd.clone(), sk: Sk::default() };
                            let o = run_case(&case);
                            cases.fetch_add(1, Ordering::Relaxed);
                            ctx.eval(1);
                            ctx.nontriv(1);
                            let pos_ok = (o.consumed == stop_a || o.consumed == stop_b) && seen.map_or(true, |s| s == o.consumed);
                            if !(o.v.is_ok() && o.out.0 == e.expect && pos_ok) {
                                ctx.violation(&case, &format!("program [{}] with its size in the header AND an end marker in the coder stream: Ok, output {} and the reader left at byte {} (after the last byte the sized payload needs; {} if the marker counts as payload) - the same position under every reader (first reader: {:?})", prog_str(&prog), brief_bytes(&e.expect), stop_a, stop_b, seen), &o, None);
                                break;
                            }
                            seen = Some(o.consumed);
                        }
                    }
                }
                if i % 701 == 0 {
                    ctx.sample(json!({"scope": name, "program": prog_str(&prog), "payload_len": e.payload.len()}));
                }
            });
            ctx.scope_done(&name, cases.load(Ordering::Relaxed), t0, "3 header kinds x 6 trailers x reader kinds; size + end marker under every reader kind");
        }
    }
    // ------------------------------------------------------------ LZMA2
    {
        let kinds = chunk_kinds(seed, true);
        let depth = 2usize;
        let total = count_upto(kinds.len(), depth);
        let name = format!("lzma2/{}kinds/depth<={}", kinds.len(), depth);
        if ctx.may_start(&name) {
            let t0 = Instant::now();
            let cases = std::sync::atomic::AtomicU64::new(0);
            par_for(total, |i| {
                let seq = nth_seq(kinds.len(), depth, i);
                let cs: Vec<Chunk> = seq.iter().map(|&k| kinds[k].clone()).collect();
                let w = lzma2::write(&cs);
                if w.ill.is_some() {
                    return;
                }
                for (tn, tr) in trailers(&w.bytes) {
                    let mut input = w.bytes.clone();
                    input.extend_from_slice(&tr);
                    for rd in readers(input.len(), tier) {
                        let case = Case::Dec { fmt: Fmt::Lzma2, opts: Opts::default(), input: Hex(input.clone()), rd, sk: Sk::default() };
                        let o = run_case(&case);
                        cases.fetch_add(1, Ordering::Relaxed);
                        ctx.eval(1);
                        if !tr.is_empty() {
                            ctx.nontriv(1);
                        }
                        if !(o.v.is_ok() && o.out.0 == w.expect && o.consumed == w.bytes.len()) {
                            ctx.violation(&case, &format!("LZMA2 [{}] + trailer {}: Ok, output {} and the reader left just after the end byte (offset {})", chunks_str(&cs), tn, brief_bytes(&w.expect), w.bytes.len()), &o, None);
                        }
                    }
                }
                if i % 301 == 0 {
                    ctx.sample(json!({"scope": name, "chunks": chunks_str(&cs), "stream_len": w.bytes.len()}));
                }
            });
            // chunks at the format's size limits (compressed size 65536 and 65535, uncompressed 65536 / 2 MiB), embedded
            let mut extremes: Vec<Vec<Chunk>> = Vec::new();
            for want in [65536usize, 65535] {
                if let Some(q) = super::c02::literal_program_with_packed_size(want) {
                    extremes.push(vec![Chunk::C { class: 3, props: (0, 0, 0), prog: q }]);
                }
            }
            extremes.push(vec![Chunk::U { reset: true, data: (0..65536u32).map(|i| (i * 7) as u8).collect() }, Chunk::C { class: 2, props: (3, 0, 2), prog: vec![Sym::M(65536, 20), Sym::L(1)] }]);
            {
                let mut p = vec![Sym::L(0x55)];
                p.extend(std::iter::repeat(Sym::M(1, 273)).take(7681));
                p.push(Sym::M(1, 238));
                extremes.push(vec![Chunk::C { class: 3, props: (3, 0, 2), prog: p }]);
            }
            par_for(extremes.len() as u64, |i| {
                let cs = &extremes[i as usize];
                let w = lzma2::write(cs);
                if w.ill.is_some() {
                    return;
                }
                for (tn, tr) in [("none", vec![]), ("00", vec![0u8]), ("ff x 20", vec![0xFFu8; 20])] {
                    let mut input = w.bytes.clone();
                    input.extend_from_slice(&tr);
                    for rd in [Rd::default(), Rd { bufreader: 8192, ..Rd::default() }, Rd { period: 4096, ..Rd::default() }, Rd { cuts: vec![3, 70], ..Rd::default() }] {
                        let case = Case::Dec { fmt: Fmt::Lzma2, opts: Opts::default(), input: Hex(input.clone()), rd, sk: Sk::default() };
                        let o = run_case(&case);
                        cases.fetch_add(1, Ordering::Relaxed);
                        ctx.eval(1);
                        ctx.nontriv(1);
                        if !(o.v.is_ok() && o.out.0 == w.expect && o.consumed == w.bytes.len()) {
                            ctx.violation(&case, &format!("LZMA2 stream of {} bytes with a chunk at the format's size limit + trailer {}: Ok, {} output bytes and the reader left just after the end byte (offset {})", w.bytes.len(), tn, w.expect.len(), w.bytes.len()), &o, None);
                            return;
                        }
                    }
                }
            });
            ctx.scope_done(&name, cases.load(Ordering::Relaxed), t0, "5 trailers x reader kinds; chunks at the size limits");
        }
    }
    // ------------------------------------------------------------ raw decoder reused on members that follow each other in one container
    {
        let name = "raw-decoder-reuse/concatenated-members";
        if ctx.may_start(name) {
            let t0 = Instant::now();
            use crate::cases::RawOp;
            let progs: Vec<Vec<Sym>> = vec![
                vec![Sym::L(1), Sym::L(2), Sym::L(3), Sym::M(3, 6), Sym::S],
                vec![Sym::L(9), Sym::L(8), Sym::M(2, 5), Sym::R(0, 3)],
                vec![Sym::L(7); 12],
                vec![],
            ];
            let mut n_cases = 0u64;
            for (lc, lp, pb) in [(3u32, 0u32, 2u32), (0, 0, 0)] {
                for a in &progs {
                    for b in &progs {
                        let ea = enc::encode(lc, lp, pb, u64::MAX, a);
                        let mut bm = b.clone();
                        bm.push(Sym::E);
                        let eb_marker = enc::encode(lc, lp, pb, u64::MAX, &bm);
                        let eb_sized = enc::encode(lc, lp, pb, u64::MAX, b);
                        let na = ea.expect.len() as u64;
                        let nb = eb_sized.expect.len() as u64;
                        // member A (size given at construction) followed by other bytes; then reset to "unknown size" and a
                        // marker-terminated member; then reset to a known size and a sized member followed by other bytes
                        let mut in0 = ea.payload.clone();
                        in0.extend_from_slice(&eb_marker.payload);
                        let mut in2 = eb_sized.payload.clone();
                        in2.extend_from_slice(&[0xFF, 0x00, 0x55]);
                        let mut in3 = eb_marker.payload.clone();
                        in3.push(0);
                        let ops = vec![
                            RawOp::Dec(Hex(in0)),
                            RawOp::ResetSize(None),
                            RawOp::Dec(Hex(eb_marker.payload.clone())),
                            RawOp::ResetSize(Some(nb)),
                            RawOp::Dec(Hex(in2)),
                            RawOp::ResetSize(None),
                            RawOp::Dec(Hex(in3)),
                        ];
                        // the same history on a decoder that was CONSTRUCTED for marker-terminated streams
                        {
                            let mut in_a = eb_sized.payload.clone();
                            in_a.extend_from_slice(&[0xAA, 0x00]);
                            let ops2 = vec![RawOp::Dec(Hex(eb_marker.payload.clone())), RawOp::ResetSize(Some(nb)), RawOp::Dec(Hex(in_a)), RawOp::ResetSize(None), RawOp::Dec(Hex(eb_marker.payload.clone()))];
                            let case2 = Case::RawLzma { lc, lp, pb, dict: 4096, size: None, memlimit: None, ops: ops2 };
                            let o2 = run_case(&case2);
                            ctx.eval(1);
                            let ok2 = o2.ops.len() == 5 && o2.ops[0].v.is_ok() && o2.ops[2].v.is_ok() && o2.ops[2].n == Some(eb_sized.payload.len() as u64) && o2.ops[2].sink_len == eb_sized.expect.len() && o2.ops[4].v.is_ok() && o2.ops[4].n == Some(eb_marker.payload.len() as u64);
                            if !ok2 {
                                ctx.violation(&case2, &format!("raw LzmaDecoder constructed with unknown size: marker member, reset(Some(Some({}))), sized member followed by 2 other bytes (stops after {} bytes), reset(Some(None)), marker member", nb, eb_sized.payload.len()), &o2, None);
                            }
                        }
                        // plain reset(None): the size given at construction stays in effect for the next member
                        {
                            let mut in_a = ea.payload.clone();
                            in_a.extend_from_slice(&[0x55, 0xAA, 0x00]);
                            let ops3 = vec![RawOp::Dec(Hex(in_a.clone())), RawOp::Reset, RawOp::Dec(Hex(in_a.clone())), RawOp::Reset, RawOp::Dec(Hex(in_a))];
                            let case3 = Case::RawLzma { lc, lp, pb, dict: 4096, size: Some(na), memlimit: None, ops: ops3 };
                            let o3 = run_case(&case3);
                            ctx.eval(1);
                            ctx.nontriv(1);
                            let ok3 = o3.ops.len() == 5 && [0usize, 2, 4].iter().all(|&k| o3.ops[k].v.is_ok() && o3.ops[k].n == Some(ea.payload.len() as u64) && o3.ops[k].sink_len == ea.expect.len());
                            if !ok3 {
                                ctx.violation(&case3, &format!("raw LzmaDecoder constructed with size {}: member [{}] + 3 other bytes, reset(None), the same again, twice: every decode is Ok, produces {} bytes and stops after {} bytes", na, prog_str(a), na, ea.payload.len()), &o3, None);
                            }
                        }
                        let case = Case::RawLzma { lc, lp, pb, dict: 4096, size: Some(na), memlimit: None, ops };
                        let o = run_case(&case);
                        n_cases += 1;
                        ctx.eval(1);
                        ctx.nontriv(1);
                        let ok = o.ops.len() == 7
                            && o.ops[0].v.is_ok()
                            && o.ops[0].n == Some(ea.payload.len() as u64)
                            && o.ops[0].sink_len == ea.expect.len()
                            && o.ops[2].v.is_ok()
                            && o.ops[2].n == Some(eb_marker.payload.len() as u64)
                            && o.ops[2].sink_len == eb_marker.expect.len()
                            && o.ops[4].v.is_ok()
                            && o.ops[4].n == Some(eb_sized.payload.len() as u64)
                            && o.ops[4].sink_len == eb_sized.expect.len()
                            && o.ops[6].v.is_err();
                        if !ok {
                            ctx.violation(&case, &format!("raw LzmaDecoder reused on members [{}] (size {}) / [{}] (marker) / [{}] (size {}) / marker member + 1 trailing byte: each sized decode stops exactly at the end of its payload ({} / {} / {} bytes consumed) and the marker-terminated member with a trailing byte is an error", prog_str(a), na, prog_str(&bm), prog_str(b), nb, ea.payload.len(), eb_marker.payload.len(), eb_sized.payload.len()), &o, None);
                        }
                    }
                }
            }
            ctx.scope_done(name, n_cases, t0, "decompress / reset(Some(None)) / decompress / reset(Some(Some(n))) / decompress on payloads followed by other data");
        }
    }
    // ------------------------------------------------------------ converse: whole-file decoders reject trailing bytes
    {
        let name = "converse/marker-lzma-and-xz-reject-trailers";
        if ctx.may_start(name) {
            let t0 = Instant::now();
            let progs: Vec<Vec<Sym>> = vec![vec![], vec![Sym::L(0x41)], vec![Sym::L(1), Sym::L(2), Sym::M(2, 5), Sym::S], vec![Sym::L(0); 300]];
            let trs: Vec<Vec<u8>> = vec![vec![0], vec![0xFF], vec![0; 4], vec![0; 6], vec![0xFD, 0x37, 0x7A], vec![1, 2, 3, 4, 5, 6, 7, 8, 9]];
            let mut items: Vec<(Fmt, Vec<u8>, String)> = Vec::new();
            for p in &progs {
                let mut q = p.clone();
                q.push(Sym::E);
                let e = enc::encode(3, 0, 2, u64::MAX, &q);
                items.push((Fmt::Lzma, enc::lzma_file(3, 0, 2, 4096, None, &e.payload), format!("marker-terminated [{}]", prog_str(&q))));
                let w = lzma2::write(&[Chunk::C { class: 3, props: (3, 0, 2), prog: if p.is_empty() { vec![Sym::L(7)] } else { p.clone() } }]);
                for check in [0u8, 1, 4] {
                    for nb in [0usize, 1, 2] {
                        let blk = xz::Block { payload: w.bytes.clone(), plain: w.expect.clone(), ..Default::default() };
                        let f = xz::XzFile { check_id: check, blocks: vec![blk; nb], ..Default::default() };
                        items.push((Fmt::Xz, xz::build(&f).0, format!("xz check {} blocks {}", check, nb)));
                    }
                }
            }
            // xz blocks announcing dictionaries of 6 KiB / 12 KiB (odd property bytes) with copies from the top third of them
            for (prop, dict) in [(1u8, 6144u32), (3, 12288), (2, 8192)] {
                let mut prog: Vec<Sym> = (0..400u32).map(|k| Sym::L((k * 7 + k / 11 + prop as u32) as u8)).collect();
                let mut produced = 400u32;
                let mut k = 0u32;
                while produced < dict + 300 {
                    prog.push(Sym::M(1 + (k * 53) % 390, 270));
                    produced += 270;
                    k += 1;
                }
                prog.extend([Sym::M(dict, 9), Sym::L(0x31), Sym::M(dict - 1, 4), Sym::M(dict - dict / 4, 30)]);
                let w = lzma2::write(&[Chunk::C { class: 3, props: (3, 0, 2), prog }]);
                let f = xz::XzFile { check_id: 1, blocks: vec![xz::Block { payload: w.bytes.clone(), plain: w.expect.clone(), o_filters: Some(vec![(xz::mbi(0x21), xz::mbi(1), vec![prop])]), ..Default::default() }], ..Default::default() };
                items.push((Fmt::Xz, xz::build(&f).0, format!("xz block announcing a {}-byte dictionary with copies at distances up to it", dict)));
            }
            // marker-terminated stream whose header carries a real size, decoded with ReadHeaderButUseProvided(None):
            // no size is in effect, so the marker is the end and nothing may follow it
            let hp_none = Opts { size: SizeOpt::HeaderProvided(None), ..Opts::default() };
            for p in &progs {
                let mut q = p.clone();
                q.push(Sym::E);
                let e = enc::encode(3, 0, 2, u64::MAX, &q);
                let file = enc::lzma_file(3, 0, 2, 4096, Some(e.expect.len() as u64), &e.payload);
                let c0 = Case::Dec { fmt: Fmt::Lzma, opts: hp_none, input: Hex(file.clone()), rd: Rd::default(), sk: Sk::default() };
                let o0 = run_case(&c0);
                ctx.eval(1);
                if !(o0.v.is_ok() && o0.out.0 == e.expect && o0.consumed == file.len()) {
                    ctx.violation(&c0, &format!("marker-terminated [{}] with a real size in the header under ReadHeaderButUseProvided(None): Ok and the reader left after the marker ({} bytes)", prog_str(&q), file.len()), &o0, None);
                }
                for tr in &trs {
                    let mut input = file.clone();
                    input.extend_from_slice(tr);
                    let case = Case::Dec { fmt: Fmt::Lzma, opts: hp_none, input: Hex(input), rd: Rd::default(), sk: Sk::default() };
                    let o = run_case(&case);
                    ctx.eval(1);
                    ctx.nontriv(1);
                    if !o.v.is_err() {
                        ctx.violation(&case, &format!("marker-terminated [{}] under ReadHeaderButUseProvided(None) + {} trailing byte(s): Err", prog_str(&q), tr.len()), &o, None);
                    }
                }
            }
            let n = items.len() as u64;
            par_for(n, |i| {
                let (fmt, file, label) = &items[i as usize];
                // sanity: without trailer the file is accepted
                let c0 = Case::Dec { fmt: *fmt, opts: Opts::default(), input: Hex(file.clone()), rd: Rd::default(), sk: Sk::default() };
                let o0 = run_case(&c0);
                if !o0.v.is_ok() {
                    ctx.violation(&c0, &format!("{}: accepted without a trailer", label), &o0, None);
                    return;
                }
                // (for .xz also: trailing bytes that are themselves a complete stream - the file again, an empty stream)
                let mut trs_here: Vec<Vec<u8>> = trs.clone();
                if *fmt == Fmt::Xz {
                    trs_here.push(file.clone());
                    trs_here.push(crate::refmodel::xz::build(&crate::refmodel::xz::XzFile { check_id: 1, ..Default::default() }).0);
                    let mut padded = vec![0u8; 4];
                    padded.extend_from_slice(file);
                    trs_here.push(padded);
                }
                for tr in &trs_here {
                    // (the fourth reader never shows the trailer in the same piece as the end of the file: a chained source,
                    // or a buffer whose refill boundary coincides with the end of the stream)
                    for rd in [Rd::default(), Rd { period: 1, ..Rd::default() }, Rd { bufreader: 3, ..Rd::default() }, Rd { cuts: vec![file.len()], ..Rd::default() }, Rd { cuts: vec![file.len().saturating_sub(12), file.len()], ..Rd::default() }] {
                        let mut input = file.clone();
                        input.extend_from_slice(tr);
                        let case = Case::Dec { fmt: *fmt, opts: Opts::default(), input: Hex(input), rd, sk: Sk::default() };
                        let o = run_case(&case);
                        ctx.eval(1);
                        ctx.nontriv(1);
                        if !o.v.is_err() {
                            ctx.violation(&case, &format!("{} + {} trailing byte(s) {}: Err", label, tr.len(), brief_bytes(tr)), &o, None);
                        }
                    }
                }
                // a hiccup of the source (one call fails with Other / Interrupted / WouldBlock / TimedOut) while the decoder
                // looks for the end of the input cannot make trailing bytes acceptable: for every call index, still Err
                if file.len() <= 400 {
                    for tr in trs.iter().filter(|t| !t.is_empty()).take(2) {
                        let mut input = file.clone();
                        input.extend_from_slice(tr);
                        let probe = run_case(&Case::Dec { fmt: *fmt, opts: Opts::default(), input: Hex(input.clone()), rd: Rd { cuts: vec![usize::MAX], ..Rd::default() }, sk: Sk::default() });
                        for k in 0..probe.reads + 1 {
                            for kind in 0..4u8 {
                                let case = Case::Dec { fmt: *fmt, opts: Opts::default(), input: Hex(input.clone()), rd: Rd { cuts: vec![usize::MAX], fail_at: Some(k), fail_kind: kind, ..Rd::default() }, sk: Sk::default() };
                                let o = run_case(&case);
                                ctx.eval(1);
                                ctx.nontriv(1);
                                if !o.v.is_err() {
                                    ctx.violation(&case, &format!("{} + {} trailing byte(s), source call #{} fails once (error kind {}): still Err", label, tr.len(), k, kind), &o, None);
                                    return;
                                }
                            }
                        }
                    }
                }
            });
            ctx.scope_done(name, n * trs.len() as u64 * 5, t0, "marker-terminated .lzma and .xz with 6 trailers (.xz: + 3 trailers that are complete streams) x 5 readers");
        }
    }
    ctx.finish()
}

//! Small enumeration helpers shared by the property checks.
use rayon::prelude::*;

/// Number of sequences of length <= depth over an alphabet of size k (including the empty one).
pub fn count_upto(k: usize, depth: usize) -> u64 {
    let mut t = 0u64;
    let mut p = 1u64;
    for _ in 0..=depth {
        t += p;
        p *= k as u64;
    }
    t
}

/// The `idx`-th sequence (shortest first, then lexicographic) over 0..k of length <= depth.
pub fn nth_seq(k: usize, depth: usize, mut idx: u64) -> Vec<usize> {
    let mut len = 0usize;
    let mut p = 1u64;
    loop {
        if idx < p {
            break;
        }
        idx -= p;
        p *= k as u64;
        len += 1;
        assert!(len <= depth);
    }
    let mut v = vec![0usize; len];
    for i in (0..len).rev() {
        v[i] = (idx % k as u64) as usize;
        idx /= k as u64;
    }
    v
}

/// Run `f(i)` for all i in 0..n on the rayon pool.
pub fn par_for(n: u64, f: impl Fn(u64) + Sync + Send) {
    (0..n).into_par_iter().for_each(|i| f(i));
}

/// All subsets of {1..n-1} (cut positions inside an n-byte input) with at most `k` elements, as sorted vectors.
pub fn cut_sets(n: usize, k: usize) -> Vec<Vec<usize>> {
    let mut out = vec![vec![]];
    if n < 2 {
        return out;
    }
    fn rec(start: usize, n: usize, k: usize, cur: &mut Vec<usize>, out: &mut Vec<Vec<usize>>) {
        if cur.len() == k {
            return;
        }
        for c in start..n {
            cur.push(c);
            out.push(cur.clone());
            rec(c + 1, n, k, cur, out);
            cur.pop();
        }
    }
    let mut cur = Vec::new();
    rec(1, n, k, &mut cur, &mut out);
    out
}

/// All subsets of cut positions {1..n-1} (2^(n-1) of them) by bitmask index.
pub fn cut_set_from_mask(n: usize, mask: u64) -> Vec<usize> {
    (1..n).filter(|i| mask >> (i - 1) & 1 == 1).collect()
}

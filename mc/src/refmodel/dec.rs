//! Independent strict LZMA decoder written from the LZMA specification
//! (LzmaSpec.cpp structure: eager normalisation). It reports, per symbol, the
//! cumulative bytes consumed / produced and whether `code == 0` at the boundary,
//! and distinguishes *corrupt* from *needs more input*.

#[derive(Clone, Copy, Debug, PartialEq, Eq)]
pub enum Kind {
    Lit,
    Match,
    ShortRep,
    Rep(u8),
    Eos,
}

#[derive(Clone, Debug)]
pub struct SymRec {
    pub kind: Kind,
    pub consumed: usize,
    pub produced: usize,
    pub code_zero: bool,
}

#[derive(Clone, Debug, PartialEq, Eq)]
pub enum Stop {
    /// end marker decoded (code==0 reported separately)
    Marker,
    /// requested size reached exactly on a symbol boundary
    SizeReached,
    /// a copy would overshoot the requested size
    Overshoot,
    /// input exhausted inside a symbol (or before the 5-byte preamble)
    NeedInput,
    /// invalid: reference outside window / first byte not 0 etc.
    Corrupt(String),
    /// symbol budget exhausted (only when a limit on symbols is given)
    Budget,
}

struct Rc<'a> {
    inp: &'a [u8],
    pos: usize,
    range: u32,
    code: u32,
    overrun: bool,
}
impl<'a> Rc<'a> {
    fn byte(&mut self) -> u32 {
        if self.pos < self.inp.len() {
            let b = self.inp[self.pos];
            self.pos += 1;
            b as u32
        } else {
            self.overrun = true;
            0
        }
    }
    fn norm(&mut self) {
        if self.range < (1 << 24) {
            self.range <<= 8;
            self.code = (self.code << 8) | self.byte();
        }
    }
    fn bit(&mut self, p: &mut u16) -> u32 {
        let bound = (self.range >> 11) * (*p as u32);
        let b;
        if self.code < bound {
            *p += (2048 - *p) >> 5;
            self.range = bound;
            b = 0;
        } else {
            *p -= *p >> 5;
            self.code -= bound;
            self.range -= bound;
            b = 1;
        }
        self.norm();
        b
    }
    fn direct(&mut self, n: u32) -> u32 {
        let mut r = 0u32;
        for _ in 0..n {
            self.range >>= 1;
            let b = if self.code >= self.range {
                self.code -= self.range;
                1
            } else {
                0
            };
            self.norm();
            r = (r << 1) | b;
        }
        r
    }
    fn tree(&mut self, probs: &mut [u16], nbits: u32) -> u32 {
        let mut m = 1usize;
        for _ in 0..nbits {
            m = (m << 1) | self.bit(&mut probs[m]) as usize;
        }
        (m - (1usize << nbits)) as u32
    }
    fn rtree(&mut self, probs: &mut [u16], off: usize, nbits: u32) -> u32 {
        let mut m = 1usize;
        let mut r = 0u32;
        for i in 0..nbits {
            let b = self.bit(&mut probs[off + m]);
            m = (m << 1) | b as usize;
            r |= b << i;
        }
        r
    }
}

#[derive(Clone)]
struct LenDec {
    choice: u16,
    choice2: u16,
    low: [[u16; 8]; 16],
    mid: [[u16; 8]; 16],
    high: [u16; 256],
}
impl LenDec {
    fn new() -> Self {
        LenDec { choice: 0x400, choice2: 0x400, low: [[0x400; 8]; 16], mid: [[0x400; 8]; 16], high: [0x400; 256] }
    }
    fn dec(&mut self, rc: &mut Rc, ps: usize) -> u32 {
        if rc.bit(&mut self.choice) == 0 {
            rc.tree(&mut self.low[ps], 3)
        } else if rc.bit(&mut self.choice2) == 0 {
            8 + rc.tree(&mut self.mid[ps], 3)
        } else {
            16 + rc.tree(&mut self.high, 8)
        }
    }
}

/// Probability / automaton state of an LZMA decoder (carried across LZMA2 chunks).
#[derive(Clone)]
pub struct LzState {
    pub lc: u32,
    pub lp: u32,
    pub pb: u32,
    state: usize,
    rep: [u32; 4],
    is_match: [[u16; 16]; 12],
    is_rep: [u16; 12],
    g0: [u16; 12],
    g1: [u16; 12],
    g2: [u16; 12],
    rep0long: [[u16; 16]; 12],
    lit: Vec<u16>,
    slot: [[u16; 64]; 4],
    spec: [u16; 115],
    align: [u16; 16],
    len: LenDec,
    replen: LenDec,
}
impl LzState {
    pub fn new(lc: u32, lp: u32, pb: u32) -> Self {
        LzState {
            lc,
            lp,
            pb,
            state: 0,
            rep: [0; 4],
            is_match: [[0x400; 16]; 12],
            is_rep: [0x400; 12],
            g0: [0x400; 12],
            g1: [0x400; 12],
            g2: [0x400; 12],
            rep0long: [[0x400; 16]; 12],
            lit: vec![0x400; 0x300 << (lc + lp)],
            slot: [[0x400; 64]; 4],
            spec: [0x400; 115],
            align: [0x400; 16],
            len: LenDec::new(),
            replen: LenDec::new(),
        }
    }
}

pub struct Decoded {
    pub syms: Vec<SymRec>,
    pub stop: Stop,
    /// bytes consumed when stopping (valid for Marker / SizeReached / Overshoot)
    pub consumed: usize,
    /// `code == 0` when stopping
    pub code_zero: bool,
}

/// Decode one range-coded LZMA segment.
///
/// * `win`: history since the last dictionary reset; decoded bytes are appended.
/// * `dict`: dictionary size in effect.
/// * `target`: stop when `win.len()` reaches this many bytes (None: run to the marker).
/// * `allow_marker`: whether an end marker is legal.
/// * `max_syms`: optional cap on symbols (used when only a table prefix is wanted).
pub fn decode_segment(
    st: &mut LzState,
    win: &mut Vec<u8>,
    dict: u64,
    input: &[u8],
    target: Option<u64>,
    allow_marker: bool,
    max_syms: Option<usize>,
) -> Decoded {
    let mut syms = Vec::new();
    if input.len() < 5 {
        return Decoded { syms, stop: Stop::NeedInput, consumed: 0, code_zero: false };
    }
    let mut rc = Rc { inp: input, pos: 5, range: 0xFFFF_FFFF, code: u32::from_be_bytes([input[1], input[2], input[3], input[4]]), overrun: false };
    // (the first byte is ignored by lzma-rs and by the LZMA SDK reference decoder
    // in relaxed mode; strict decoders require 0 — callers check `input[0]`.)
    loop {
        if let Some(t) = target {
            if win.len() as u64 >= t {
                let z = rc.code == 0;
                return Decoded { syms, stop: Stop::SizeReached, consumed: rc.pos, code_zero: z };
            }
        }
        if let Some(m) = max_syms {
            if syms.len() >= m {
                let z = rc.code == 0;
                return Decoded { syms, stop: Stop::Budget, consumed: rc.pos, code_zero: z };
            }
        }
        let pos = win.len();
        let ps = pos & ((1usize << st.pb) - 1);
        let kind;
        let mut copy: Option<(u64, u32)> = None;
        if rc.bit(&mut st.is_match[st.state][ps]) == 0 {
            // literal
            let prev = if pos == 0 { 0 } else { win[pos - 1] } as usize;
            let ls = ((pos & ((1usize << st.lp) - 1)) << st.lc) + (prev >> (8 - st.lc));
            let probs = &mut st.lit[ls * 0x300..(ls + 1) * 0x300];
            let mut sym = 1usize;
            if st.state >= 7 {
                let d = st.rep[0] as u64 + 1;
                if d > pos as u64 || d > dict {
                    return Decoded {
                        syms,
                        stop: Stop::Corrupt(format!("matched literal with rep0 distance {} beyond window {}", d, pos)),
                        consumed: rc.pos,
                        code_zero: false,
                    };
                }
                let mut mb = win[pos - d as usize] as usize;
                while sym < 0x100 {
                    let mbit = (mb >> 7) & 1;
                    mb <<= 1;
                    let b = rc.bit(&mut probs[((1 + mbit) << 8) + sym]) as usize;
                    sym = (sym << 1) | b;
                    if mbit != b {
                        break;
                    }
                }
            }
            while sym < 0x100 {
                sym = (sym << 1) | rc.bit(&mut probs[sym]) as usize;
            }
            if rc.overrun {
                return Decoded { syms, stop: Stop::NeedInput, consumed: input.len(), code_zero: false };
            }
            win.push((sym - 0x100) as u8);
            st.state = if st.state < 4 {
                0
            } else if st.state < 10 {
                st.state - 3
            } else {
                st.state - 6
            };
            kind = Kind::Lit;
        } else if rc.bit(&mut st.is_rep[st.state]) != 0 {
            if rc.bit(&mut st.g0[st.state]) == 0 {
                if rc.bit(&mut st.rep0long[st.state][ps]) == 0 {
                    st.state = if st.state < 7 { 9 } else { 11 };
                    copy = Some((st.rep[0] as u64 + 1, 1));
                    kind = Kind::ShortRep;
                } else {
                    let l = st.replen.dec(&mut rc, ps) + 2;
                    st.state = if st.state < 7 { 8 } else { 11 };
                    copy = Some((st.rep[0] as u64 + 1, l));
                    kind = Kind::Rep(0);
                }
            } else {
                let idx;
                if rc.bit(&mut st.g1[st.state]) == 0 {
                    idx = 1;
                } else if rc.bit(&mut st.g2[st.state]) == 0 {
                    idx = 2;
                } else {
                    idx = 3;
                }
                let d = st.rep[idx];
                for i in (0..idx).rev() {
                    st.rep[i + 1] = st.rep[i];
                }
                st.rep[0] = d;
                let l = st.replen.dec(&mut rc, ps) + 2;
                st.state = if st.state < 7 { 8 } else { 11 };
                copy = Some((st.rep[0] as u64 + 1, l));
                kind = Kind::Rep(idx as u8);
            }
        } else {
            let l = st.len.dec(&mut rc, ps);
            let ls = std::cmp::min(l, 3) as usize;
            let slot = rc.tree(&mut st.slot[ls], 6);
            let d = if slot < 4 {
                slot
            } else {
                let nd = (slot >> 1) - 1;
                let base = (2 | (slot & 1)) << nd;
                if slot < 14 {
                    base + rc.rtree(&mut st.spec, (base - slot) as usize, nd)
                } else {
                    let hi = rc.direct(nd - 4);
                    let lo = rc.rtree(&mut st.align, 0, 4);
                    base.wrapping_add(hi << 4).wrapping_add(lo)
                }
            };
            st.rep[3] = st.rep[2];
            st.rep[2] = st.rep[1];
            st.rep[1] = st.rep[0];
            st.rep[0] = d;
            st.state = if st.state < 7 { 7 } else { 10 };
            if rc.overrun {
                return Decoded { syms, stop: Stop::NeedInput, consumed: input.len(), code_zero: false };
            }
            if d == 0xFFFF_FFFF {
                let z = rc.code == 0;
                syms.push(SymRec { kind: Kind::Eos, consumed: rc.pos, produced: win.len(), code_zero: z });
                if !allow_marker {
                    return Decoded { syms, stop: Stop::Corrupt("end marker not allowed here".into()), consumed: rc.pos, code_zero: z };
                }
                return Decoded { syms, stop: Stop::Marker, consumed: rc.pos, code_zero: z };
            }
            copy = Some((d as u64 + 1, l + 2));
            kind = Kind::Match;
        }
        if rc.overrun {
            return Decoded { syms, stop: Stop::NeedInput, consumed: input.len(), code_zero: false };
        }
        if let Some((d, l)) = copy {
            if d > win.len() as u64 || d > dict {
                return Decoded {
                    syms,
                    stop: Stop::Corrupt(format!("distance {} beyond window {} / dict {}", d, win.len(), dict)),
                    consumed: rc.pos,
                    code_zero: false,
                };
            }
            if let Some(t) = target {
                if win.len() as u64 + l as u64 > t {
                    return Decoded { syms, stop: Stop::Overshoot, consumed: rc.pos, code_zero: rc.code == 0 };
                }
            }
            for _ in 0..l {
                let b = win[win.len() - d as usize];
                win.push(b);
            }
        }
        syms.push(SymRec { kind, consumed: rc.pos, produced: win.len(), code_zero: rc.code == 0 });
    }
}

/// Verdict of the strict `.lzma` reference decoder.
#[derive(Debug, Clone, PartialEq, Eq)]
pub enum Verdict {
    Ok(Vec<u8>),
    Invalid(String),
}

/// Strict decode of a raw LZMA payload (no header) under the `.lzma` rules:
/// first byte 0; with a size: exactly that many bytes, an end marker is allowed
/// only exactly at the size (and then must finish with code 0), otherwise the
/// coder must be finished (code==0) exactly at the end of input when
/// `require_all_input`; without a size: marker mandatory, code==0 at the marker,
/// no input after it.
pub fn strict_lzma(
    lc: u32,
    lp: u32,
    pb: u32,
    dict: u64,
    size: Option<u64>,
    payload: &[u8],
    require_all_input: bool,
) -> (Verdict, Decoded) {
    let mut st = LzState::new(lc, lp, pb);
    let mut win = Vec::new();
    let d = decode_segment(&mut st, &mut win, dict, payload, size, true, None);
    let v = if payload.first().copied().unwrap_or(1) != 0 {
        Verdict::Invalid("first payload byte is not 0".into())
    } else {
        match (&d.stop, size) {
            (Stop::Marker, None) => {
                if !d.code_zero {
                    Verdict::Invalid("code != 0 at marker".into())
                } else if d.consumed != payload.len() {
                    Verdict::Invalid("bytes after marker".into())
                } else {
                    Verdict::Ok(win.clone())
                }
            }
            (Stop::Marker, Some(_)) => Verdict::Invalid("marker before declared size".into()),
            (Stop::SizeReached, Some(_)) => {
                if require_all_input && d.consumed != payload.len() {
                    // an optional end marker may follow; not needed by our uses
                    Verdict::Invalid("input left after declared size".into())
                } else {
                    Verdict::Ok(win.clone())
                }
            }
            (Stop::Overshoot, _) => Verdict::Invalid("copy overshoots declared size".into()),
            (Stop::NeedInput, _) => Verdict::Invalid("truncated".into()),
            (Stop::Corrupt(s), _) => Verdict::Invalid(s.clone()),
            _ => Verdict::Invalid("unexpected stop".into()),
        }
    };
    (v, d)
}

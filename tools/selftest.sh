#!/bin/bash
# tools/selftest.sh [--baseline] [name-filter]
# For every mutant in /verif/mutants (own edits) and every kept sub-agent change in /verif/seeded/*/patch.diff:
# apply it to /repo, run the quick check of its property, require exit 1 with a VIOLATION line, and undo it.
# With --baseline also confirm in a scratch worktree that the 59-test suite still passes with the mutant.
# Writes /verif/mutants/selftest_results.json. Refuses to run if /repo has uncommitted changes.
set -u
cd /verif
BASE=0; FILTER=""
for a in "$@"; do case "$a" in --baseline) BASE=1;; *) FILTER="$a";; esac; done
if [ -n "$(git -C /repo status --porcelain)" ]; then echo "refusing: /repo has uncommitted changes" >&2; exit 2; fi
RES=/verif/mutants/selftest_results.json
TMP=$(mktemp)
echo "[" > "$TMP"
first=1
run_one() { # name prop patch
  local name="$1" prop="$2" patch="$3" base="skipped" rc out
  if [ $BASE -eq 1 ]; then
    local wt="/tmp/sv/st-$$"; mkdir -p /tmp/sv
    git -C /repo worktree add -q --detach "$wt" HEAD
    ( cd "$wt" && git apply "$patch" && CARGO_TARGET_DIR=/tmp/sv/target cargo test --workspace --no-fail-fast --offline > /tmp/sv/st.log 2>&1 )
    local p f
    p=$(grep -E "^test result" /tmp/sv/st.log | sed -E 's/.* ([0-9]+) passed.*/\1/' | paste -sd+ | bc)
    f=$(grep -E "^test result" /tmp/sv/st.log | sed -E 's/.* ([0-9]+) failed.*/\1/' | paste -sd+ | bc)
    base="${p:-0} passed ${f:-x} failed"
    git -C /repo worktree remove --force "$wt"
  fi
  git -C /repo apply "$patch" || { echo "cannot apply $patch" >&2; return; }
  ./check "$prop" quick > /tmp/sv-check.log 2>&1; rc=$?
  git -C /repo checkout -- .
  local nv; nv=$(grep -c "^VIOLATION property=$prop " /tmp/sv-check.log)
  local first_line; first_line=$(grep -m1 -A1 "^VIOLATION" /tmp/sv-check.log | tail -1 | cut -c1-300 | sed 's/\\/\\\\/g; s/"/\\"/g')
  [ $first -eq 1 ] || echo "," >> "$TMP"; first=0
  echo "{\"mutant\": \"$name\", \"property\": \"$prop\", \"baseline\": \"$base\", \"check_exit\": $rc, \"violation_lines\": $nv, \"first\": \"$first_line\"}" >> "$TMP"
  printf "%-50s %s exit=%s violations=%s baseline=[%s]\n" "$name" "$prop" "$rc" "$nv" "$base"
}
mkdir -p /tmp/sv
python3 - <<'PY' > /tmp/sv/list.txt
import json,glob,os
for m in json.load(open('/verif/mutants/index.json')):
    print(m['name'], m['property'], '/verif/mutants/%s.patch' % m['name'])
for d in sorted(glob.glob('/verif/seeded/*/')):
    mj = os.path.join(d, 'meta.json')
    if os.path.exists(mj):
        m = json.load(open(mj))
        if m.get('expect_detected') is False:
            continue  # kept for the record only (see meta.json: not a violation under one reading / neutralised by a fix)
        print('seeded-' + os.path.basename(d.rstrip('/')), m.get('detecting_check', m['property']), os.path.join(d, 'patch.diff'))
PY
while read -r name prop patch; do
  case "$name" in *"$FILTER"*) run_one "$name" "$prop" "$patch";; esac
done < /tmp/sv/list.txt
echo "]" >> "$TMP"
mv "$TMP" "$RES"
# restore the evidence of the unchanged tree for the properties touched
echo "selftest done: $RES (re-run the quick checks to refresh evidence files)"

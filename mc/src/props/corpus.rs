//! Corpus of LZMA streams (built from symbol programs by the reference encoder, plus the repository's
//! liblzma-made files) shared by the streaming / fragmentation / totality checks.
use crate::cases::{Opts, SizeOpt};
use crate::refmodel::enc::{self, Sym};

#[derive(Clone)]
pub struct Item {
    pub name: String,
    pub lc: u32,
    pub lp: u32,
    pub pb: u32,
    pub dict: u32,
    pub prog: Vec<Sym>,
    /// append an end marker
    pub marker: bool,
    /// write the true size into the header / supply it (otherwise unknown)
    pub sized: bool,
}

#[derive(Clone, Copy, Debug, PartialEq, Eq)]
pub enum OptKind {
    Header,
    HeaderProvidedNone,
    HeaderProvidedSome,
    ProvidedNone,
    ProvidedSome,
}
pub const ALL_OPTS: [OptKind; 5] = [OptKind::Header, OptKind::HeaderProvidedNone, OptKind::HeaderProvidedSome, OptKind::ProvidedNone, OptKind::ProvidedSome];

pub struct Built {
    pub bytes: Vec<u8>,
    pub opts: Opts,
    pub expect: Vec<u8>,
    /// (absolute input bytes consumed, bytes produced) after each symbol
    pub table: Vec<(usize, usize)>,
    pub header_len: usize,
    pub size_in_effect: Option<u64>,
    pub max_symbol_bytes: usize,
}

impl Item {
    /// Build the byte stream for an option kind; None if the combination is not meaningful
    /// (e.g. "no size in effect" for a stream without marker).
    pub fn build(&self, k: OptKind) -> Option<Built> {
        let mut p = self.prog.clone();
        if self.marker && !matches!(p.last(), Some(Sym::EL(_))) {
            p.push(Sym::E);
        }
        let e = enc::encode(self.lc, self.lp, self.pb, self.dict.max(4096) as u64, &p);
        assert!(e.bad.is_none(), "corpus item {} has an invalid reference", self.name);
        let n = e.expect.len() as u64;
        let (hdr_size, opts_size, hl): (Option<u64>, SizeOpt, usize) = match k {
            OptKind::Header => (if self.sized { Some(n) } else { None }, SizeOpt::Header, 13),
            OptKind::HeaderProvidedNone => {
                if !self.marker {
                    return None;
                }
                (Some(n + 3), SizeOpt::HeaderProvided(None), 13)
            }
            OptKind::HeaderProvidedSome => (Some(n / 2), SizeOpt::HeaderProvided(Some(n)), 13),
            OptKind::ProvidedNone => {
                if !self.marker {
                    return None;
                }
                (None, SizeOpt::Provided(None), 5)
            }
            OptKind::ProvidedSome => (None, SizeOpt::Provided(Some(n)), 5),
        };
        if k == OptKind::Header && !self.sized && !self.marker {
            return None;
        }
        let mut bytes = enc::lzma_header(self.lc, self.lp, self.pb, self.dict, hdr_size);
        bytes.truncate(hl);
        bytes.extend_from_slice(&e.payload);
        let size_in_effect = match opts_size {
            SizeOpt::Header => hdr_size,
            SizeOpt::HeaderProvided(x) | SizeOpt::Provided(x) => x,
        };
        let mut prev = 5usize;
        let mut maxsym = 0usize;
        for (c, _) in &e.table {
            maxsym = maxsym.max(c - prev);
            prev = *c;
        }
        Some(Built {
            bytes,
            opts: Opts { size: opts_size, memlimit: None, allow_incomplete: false },
            expect: e.expect.clone(),
            table: e.table.iter().map(|(c, p)| (c + hl, *p)).collect(),
            header_len: hl,
            size_in_effect,
            max_symbol_bytes: maxsym,
        })
    }
}

fn lits(n: usize, seed: u64) -> Vec<Sym> {
    (0..n).map(|i| Sym::L((0x61u64 + (i as u64) * 7 + seed * 13) as u8)).collect()
}

/// A stream whose last symbols are as improbable as training can make them (long symbols).
pub fn long_symbol_program(train: usize) -> Vec<Sym> {
    let mut p = Vec::new();
    // train "literal 0x00" everywhere
    for _ in 0..train {
        p.push(Sym::L(0));
    }
    // train matches: short length (low coder value 0), distance slot 0
    for _ in 0..40 {
        p.push(Sym::M(1, 2));
        p.push(Sym::L(0));
    }
    // now the opposite of everything trained: literal 0xFF, long match (high coder all ones), far distance
    p.push(Sym::L(0xFF));
    let far = (train as u32 + 80).min(train as u32 + 100);
    p.push(Sym::M(far, 273));
    p.push(Sym::L(0xFF));
    p.push(Sym::R(3, 273));
    p.push(Sym::L(0xAA));
    p.push(Sym::M(far + 200, 200));
    p
}

/// Adversarially trained program: every adaptive probability on the path of the final match is driven to the
/// rail in the opposite direction first (deepest tree nodes first), so that one symbol costs as many input bytes
/// as training can make it (lc = lp = pb = 0 is assumed so that contexts do not depend on position).
/// Returns (program, index of the first expensive symbol).
pub fn adversarial_program(reps: usize) -> (Vec<Sym>, usize) {
    let mut p: Vec<Sym> = Vec::new();
    // some initial content so that distances up to ~400 are valid
    for i in 0..420u32 {
        p.push(Sym::L((i * 7 + 1) as u8));
    }
    let rep = |p: &mut Vec<Sym>, s: Sym| {
        for _ in 0..reps {
            p.push(s);
        }
    };
    // B3: align tree of the target (align = 1111): nodes 15, 7, 3, 1 get the opposite bit. slot 15 <=> dist-1 in 192..255
    for v in [7u32, 3, 1, 0] {
        rep(&mut p, Sym::M(192 + 16 + v + 1, 18)); // dist-1 = 192 + 16*1 + v  (direct bits 01, align v)
    }
    // B2: slot tree (len_state 3) of the target slot 15 = 001111: opposite bit at depth 6,5,4,3,2
    rep(&mut p, Sym::M(128 + 1, 18)); // slot 14 (001110), align 0000
    rep(&mut p, Sym::M(64 + 1, 18)); // slot 12 (001100)
    rep(&mut p, Sym::M(16 + 1, 18)); // slot 8  (001000)
    rep(&mut p, Sym::M(4 + 1, 18)); // slot 4  (000100)
    rep(&mut p, Sym::M(256 + 1, 18)); // slot 16 (010000)
    // B1: length coder: high tree of the target length 273 (symbol 255), deepest node first; matches use slot 16
    for hs in [254u32, 252, 248, 240, 224, 192, 128, 0] {
        rep(&mut p, Sym::M(289, hs + 18)); // dist-1 = 288: slot 16, align 0000
    }
    rep(&mut p, Sym::M(289, 10)); // choice2 -> 0
    rep(&mut p, Sym::M(289, 5)); // choice -> 0
    // A: is_rep[state 0] -> 1 : rep matches in state 0 (three literals bring the state back to 0)
    for _ in 0..reps {
        p.extend([Sym::L(1), Sym::L(2), Sym::L(3), Sym::R(0, 2)]);
    }
    // C: is_match[state 0] -> 0
    rep(&mut p, Sym::L(0x55));
    let first = p.len();
    // the expensive symbols
    p.push(Sym::M(192 + 16 * 3 + 15 + 1, 273)); // slot 15, direct 11, align 1111, length 273
    p.push(Sym::L(0xAA));
    p.push(Sym::L(0x55));
    p.push(Sym::L(0x55));
    p.push(Sym::M(192 + 16 * 2 + 15 + 1, 273));
    p.push(Sym::L(0x01));
    (p, first)
}

/// Adversarially trained END MARKER (the longest symbol the format has: 26 direct distance bits on top of the coded
/// ones): every adaptive probability on its path that training can reach is driven to the opposite rail first - the
/// align tree, the two top nodes of the distance-slot tree (the second needs matches at distances >= 64 KiB), the length
/// coder for length 273, is_rep and is_match of state 0 - then `pad` cheap literals move the coder's range, and the
/// stream ends with a marker of length 273. lc = lp = pb = 0. Returns (program incl. the marker, index of the marker).
pub fn adversarial_marker_program(reps: usize, pad: usize) -> (Vec<Sym>, usize) {
    let mut p: Vec<Sym> = Vec::new();
    for i in 0..420u32 {
        p.push(Sym::L((i * 7 + 1) as u8));
    }
    // more than 64 KiB of history, cheaply
    for _ in 0..250 {
        p.push(Sym::M(1, 273));
    }
    let rep = |p: &mut Vec<Sym>, s: Sym| {
        for _ in 0..reps {
            p.push(s);
        }
    };
    // slot tree (len_state 3), second node on the path 11....: opposite bit = slots 32..47 = distances from 64 KiB
    rep(&mut p, Sym::M(65536 + 1, 18));
    // align tree of 1111: nodes 15, 7, 3, 1 get the opposite bit (slot 15 carries align bits)
    for v in [7u32, 3, 1, 0] {
        rep(&mut p, Sym::M(192 + 16 + v + 1, 18));
    }
    // slot tree root -> 0 (and the length coder): length 273's high tree, deepest node first; slot 16 matches
    for hs in [254u32, 252, 248, 240, 224, 192, 128, 0] {
        rep(&mut p, Sym::M(289, hs + 18));
    }
    rep(&mut p, Sym::M(289, 10)); // choice2 -> 0
    rep(&mut p, Sym::M(289, 5)); // choice -> 0
    // is_rep[state 0] -> 1
    for _ in 0..reps {
        p.extend([Sym::L(1), Sym::L(2), Sym::L(3), Sym::R(0, 2)]);
    }
    // is_match[state 0] -> 0, and the padding
    rep(&mut p, Sym::L(0x55));
    for _ in 0..pad {
        p.push(Sym::L(0x55));
    }
    let first = p.len();
    p.push(Sym::EL(273));
    (p, first)
}

/// `adversarial_marker_program` with the padding (0..120 literals) that makes the marker longest; (program, index of
/// the marker, input bytes the marker takes).
pub fn adversarial_marker_best(reps: usize) -> (Vec<Sym>, usize, usize) {
    let mut best = (0usize, 0usize);
    for pad in 0..120usize {
        let (p, first) = adversarial_marker_program(reps, pad);
        let e = enc::encode(0, 0, 0, 1 << 20, &p);
        let last = e.payload.len() - e.table[first - 1].0;
        if last > best.0 {
            best = (last, pad);
        }
    }
    let (p, first) = adversarial_marker_program(reps, best.1);
    (p, first, best.0)
}

pub fn valid_items(seed: u64, big: bool) -> Vec<Item> {
    let mut v = Vec::new();
    let mk = |name: &str, lc, lp, pb, dict, prog: Vec<Sym>, marker, sized| Item { name: name.to_string(), lc, lp, pb, dict, prog, marker, sized };
    v.push(mk("lits12+marker", 3, 0, 2, 1 << 16, lits(12, seed), true, false));
    v.push(mk("lits12+size", 3, 0, 2, 1 << 16, lits(12, seed), false, true));
    let mut mix = lits(6, seed);
    mix.extend([Sym::M(5, 2), Sym::M(3, 2), Sym::S, Sym::L(0x31), Sym::R(1, 3), Sym::R(0, 5), Sym::L(0x32), Sym::M(2, 18), Sym::R(3, 2), Sym::R(2, 9), Sym::S, Sym::L(0x33), Sym::M(30, 40)]);
    v.push(mk("mix+size", 3, 0, 2, 4096, mix.clone(), false, true));
    v.push(mk("mix+marker", 0, 0, 0, 0, mix.clone(), true, false));
    v.push(mk("mix+size+marker", 1, 2, 3, 1 << 20, mix.clone(), true, true));
    v.push(mk("mix+marker lc2lp2pb4", 2, 2, 4, 1 << 12, mix.clone(), true, false));
    v.push(mk("empty+marker", 3, 0, 2, 4096, vec![], true, false));
    v.push(mk("empty+size0", 3, 0, 2, 4096, vec![], false, true));
    v.push(mk("one-literal+size", 3, 0, 2, 4096, vec![Sym::L(0x41)], false, true));
    v.push(mk("match-ended+size", 3, 0, 2, 4096, vec![Sym::L(0x41), Sym::L(0x42), Sym::M(2, 9)], false, true));
    v.push(mk("long-symbols-300+size", 3, 0, 2, 4096, long_symbol_program(300), false, true));
    v.push(mk("long-symbols-300+marker", 3, 0, 2, 4096, long_symbol_program(300), true, false));
    if big {
        v.push(mk("long-symbols-2000+marker", 3, 0, 2, 1 << 16, long_symbol_program(2000), true, false));
        v.push(mk("long-symbols-2000+size pb0", 0, 0, 0, 1 << 16, long_symbol_program(2000), false, true));
        let mut wrap = lits(40, seed);
        for k in 0..60u32 {
            wrap.push(Sym::M(1 + (k * 13) % 39, 70 + (k * 7) % 150));
            wrap.push(Sym::L((k * 5) as u8));
        }
        v.push(mk("wraps-4096-window+size", 3, 0, 2, 4096, wrap.clone(), false, true));
        v.push(mk("wraps-4096-window+marker", 3, 0, 2, 1, wrap, true, false));
        // a non-overlapping match that ends exactly at the end of the 4096-byte window
        {
            let mut p = lits(40, seed);
            let mut produced = 40usize;
            // train the matched-literal probabilities (one literal context with lc = 0): a wrong match byte later on is
            // invisible while they are all at their initial value
            // (match byte with top bit 1 -> literal with top bit 1; match byte with top bit 0 -> literal with top bit 0: the two
            // first-bit probabilities of the matched-literal coder end up at opposite rails)
            for r in 0..40u32 {
                let a = if r % 2 == 0 { 0x91u8 } else { 0x11 };
                p.extend([Sym::L(a), Sym::M(1, 2), Sym::L(a ^ 0x0F)]);
                produced += 4;
            }
            let mut k = 0u32;
            let boundary = 4096usize;
            while produced + 200 + 280 < boundary {
                p.push(Sym::M(1 + (k * 13) % 39, 273));
                produced += 273;
                if k % 4 == 3 {
                    p.push(Sym::L((k * 5 + 1) as u8));
                    produced += 1;
                }
                k += 1;
            }
            if produced + 200 + 2 <= boundary {
                let l = (boundary - 200 - produced).min(273);
                if l >= 2 {
                    p.push(Sym::M(7, l as u32));
                    produced += l;
                }
            }
            while produced + 200 < boundary {
                p.push(Sym::L((produced * 3 + 7) as u8));
                produced += 1;
            }
            p.push(Sym::M(300, 200)); // source [boundary-500, boundary-300), destination [boundary-200, boundary)
            // what follows reads back across the wrap point at short and long distances
            p.extend([Sym::L(0xF7), Sym::M(1, 5), Sym::L(0x78), Sym::M(2, 9), Sym::S, Sym::M(4000, 30), Sym::M(15, 40), Sym::L(0x79), Sym::M(4096, 20)]);
            // 108 bytes into the second lap: a copy whose source ends exactly at the window end (distance = cursor after the
            // copy), so that the matched literal that follows takes its match byte from window index 0
            p.extend([Sym::M(120, 12), Sym::L(0xF5), Sym::L(0x5A), Sym::M(3, 4), Sym::M(128, 4), Sym::L(0xC3)]);
            v.push(mk("match-ends-at-window-end+size", 0, 0, 0, 4096, p.clone(), false, true));
            v.push(mk("match-ends-at-window-end+marker", 0, 0, 0, 4096, p, true, false));
        }
        let rnd: Vec<Sym> = (0..260u32).map(|i| Sym::L((i.wrapping_mul(2654435761) >> 11) as u8)).collect();
        v.push(mk("incompressible-260+size", 3, 0, 2, 4096, rnd.clone(), false, true));
        v.push(mk("incompressible-260+marker lc4", 4, 0, 0, 4096, rnd, true, false));
    }
    v
}

/// The repository's own liblzma-made `.lzma` files that are small enough for state-graph exploration.
pub fn repo_lzma_files(max_len: usize) -> Vec<(String, Vec<u8>)> {
    let mut v = Vec::new();
    for f in ["hello.txt.lzma", "foo.txt.lzma", "empty.txt.lzma", "range-coder-edge-case.lzma"] {
        if let Ok(b) = std::fs::read(format!("/repo/tests/files/{}", f)) {
            if b.len() <= max_len {
                v.push((f.to_string(), b));
            }
        }
    }
    v
}

#!/usr/bin/env python3
"""Generates /verif/mutants/<name>.patch from textual replacements against /repo HEAD.

Each mutant is a realistic property-breaking edit taken from the "would detect" lists of DESIGN.md §5
(cursor/offset logic, state carry-over, dropped guards, swallowed errors). `tools/selftest.sh` checks that the
59-test baseline still passes with the mutant and that the named check reports a VIOLATION.
"""
import os, subprocess, sys, tempfile, shutil, json

M = [
 # name, property, file, old, new
 ("c01_pos_state_mask_3_bits_only", "C01", "src/decode/lzma.rs",
  "let pos_state = output.len() & ((1 << self.lzma_props.pb) - 1);",
  "let pos_state = output.len() & ((1 << self.lzma_props.pb) - 1) & 7;"),
 ("c01_lit_state_lp_2_bits_only", "C01", "src/decode/lzma.rs",
  "let lit_state = ((output.len() & ((1 << self.lzma_props.lp) - 1)) << self.lzma_props.lc)\n            + (prev_byte >> (8 - self.lzma_props.lc));",
  "let lit_state = ((output.len() & ((1 << self.lzma_props.lp) - 1) & 3) << self.lzma_props.lc)\n            + (prev_byte >> (8 - self.lzma_props.lc));"),
 ("c01_window_wrap_never_taken", "C01", "src/decode/lzbuffer.rs",
  "            if offset == self.dict_size {\n                offset = 0\n            }",
  "            if offset > self.dict_size {\n                offset = 0\n            }"),
 ("c01_dict_clamp_too_small", "C01", "src/decode/lzma.rs",
  "let dict_size = if dict_size_provided < 0x1000 {\n            0x1000",
  "let dict_size = if dict_size_provided < 0x100 {\n            0x100"),
 ("c02_reset_keeps_rep", "C02", "src/decode/lzma.rs",
  "        self.state = 0;\n        self.rep = [0; 4];\n        self.len_decoder = LenDecoder::new();",
  "        self.state = 0;\n        self.len_decoder = LenDecoder::new();"),
 ("c02_state_reset_also_on_class0", "C02", "src/decode/lzma2.rs",
  "            0 => {\n                reset_dict = false;\n                reset_state = false;",
  "            0 => {\n                reset_dict = false;\n                reset_state = true;"),
 ("c03_multibyte_max_4_bytes", "C03", "src/decode/xz.rs",
  "    for i in 0..9 {\n        let byte = input.read_u8()?;",
  "    for i in 0..3 {\n        let byte = input.read_u8()?;"),
 ("c03_header_size_1024_rejected", "C03", "src/decode/xz.rs",
  "        if size_of_properties > header_size {",
  "        if size_of_properties > header_size || header_size > 1000 {"),
 ("c04_carry_not_propagated_through_ff", "C04", "src/encode/rangecoder.rs",
  "                let byte = tmp.wrapping_add((self.low >> 32) as u8);\n                self.stream.write_u8(byte)?;",
  "                let byte = if tmp == 0xFF && self.cachesz > 3 { tmp } else { tmp.wrapping_add((self.low >> 32) as u8) };\n                self.stream.write_u8(byte)?;"),
 ("c05_max_required_input_lowered", "C05", "src/decode/lzma.rs",
  "const MAX_REQUIRED_INPUT: usize = 20;",
  "const MAX_REQUIRED_INPUT: usize = 8;"),
 ("c05_rangecoder_not_saved_after_carry_over", "C05", "src/decode/lzma.rs",
  "                rangecoder.set(tmp_rangecoder.range, tmp_rangecoder.code);",
  "                let (saved_range, saved_code) = (tmp_rangecoder.range, tmp_rangecoder.code);\n                if tmp_reader.position() > 0 {\n                    rangecoder.set(saved_range, saved_code);\n                }"),
 ("c05_tmp_leftover_off_by_one", "C05", "src/decode/stream.rs",
  "                            let new_len = end - position;\n                            self.tmp.get_mut()[0..new_len as usize]\n                                .copy_from_slice(&tmp[position as usize..end as usize]);",
  "                            let new_len = (end - position).min(4);\n                            self.tmp.get_mut()[0..new_len as usize]\n                                .copy_from_slice(&tmp[position as usize..(position + new_len) as usize]);"),
 ("c06_header_footer_flags_not_compared", "C06", "src/decode/xz.rs",
  "        if header.stream_flags != stream_flags {",
  "        if false && header.stream_flags != stream_flags {"),
 ("c06_index_uncompressed_size_not_compared", "C06", "src/decode/xz.rs",
  "            if unpacked_size != record.unpacked_size {",
  "            if unpacked_size < record.unpacked_size {"),
 ("c06_block_padding_not_checked", "C06", "src/decode/xz.rs",
  "        if byte != 0 {\n            return Err(error::Error::XzError(\n                \"Invalid block padding, must be null bytes\".to_string(),",
  "        if byte > 0x7F {\n            return Err(error::Error::XzError(\n                \"Invalid block padding, must be null bytes\".to_string(),"),
 ("c06_crc64_low_half_only", "C06", "src/decode/xz.rs",
  "            if crc64 != digest_crc64 {",
  "            if crc64 as u32 != digest_crc64 as u32 {"),
 ("c07_filter_props_guard_removed", "C07", "src/decode/xz.rs",
  "        if size_of_properties > header_size {",
  "        if size_of_properties > u64::MAX / 2 {"),
 ("c07_backward_size_u32_again", "C07", "src/decode/xz.rs",
  "        let expected_index_size = (u64::from(backward_size) + 1) << 2;",
  "        let expected_index_size = u64::from((backward_size + 1) << 2);"),
 ("c18_sha256_refused_only_when_a_block_is_checked", "C18", "src/decode/xz.rs",
  "    if header.stream_flags.check_method == CheckMethod::Sha256 {",
  "    if false && header.stream_flags.check_method == CheckMethod::Sha256 {"),
 ("c10_window_copied_before_each_wrap_flush", "C10", "src/decode/lzbuffer.rs",
  "            self.stream.write_all(self.buf.as_slice())?;\n            self.cursor = 0;",
  "            let window = self.buf.to_vec();\n            self.cursor = 0;\n            self.stream.write_all(&window)?;"),
 ("c01_default_entry_point_sets_a_memory_limit", "C01", "src/lib.rs",
  "    lzma_decompress_with_options(input, output, &decompress::Options::default())",
  "    lzma_decompress_with_options(\n        input,\n        output,\n        &decompress::Options {\n            memlimit: Some(1 << 16),\n            ..decompress::Options::default()\n        },\n    )"),
 ("c05_stream_new_uses_other_defaults", "C05", "src/decode/stream.rs",
  "        Self::new_with_options(&Options::default(), output)",
  "        Self::new_with_options(\n            &Options {\n                allow_incomplete: true,\n                ..Options::default()\n            },\n            output,\n        )"),
 ("c04_default_compress_entry_point_skips_size_field", "C04", "src/lib.rs",
  "    lzma_compress_with_options(input, output, &compress::Options::default())",
  "    lzma_compress_with_options(\n        input,\n        output,\n        &compress::Options {\n            unpacked_size: compress::UnpackedSize::SkipWritingToHeader,\n        },\n    )"),
 ("c08_final_size_check_removed", "C08", "src/decode/lzma.rs",
  "            if mode == ProcessingMode::Finish && len != output.len() as u64 {",
  "            if mode == ProcessingMode::Finish && len > output.len() as u64 {"),
 ("c08_provided_none_falls_back_to_header", "C08", "src/decode/lzma.rs",
  "                input\n                    .read_u64::<LittleEndian>()\n                    .map_err(error::Error::HeaderTooShort)?;\n                x",
  "                let h = input\n                    .read_u64::<LittleEndian>()\n                    .map_err(error::Error::HeaderTooShort)?;\n                x.or(if h == u64::MAX { None } else { Some(h) })"),
 ("c08_end_marker_no_longer_required", "C08", "src/decode/lzma.rs",
  "                if mode == ProcessingMode::Finish && !self.end_marker_seen {",
  "                if mode == ProcessingMode::Finish && !self.end_marker_seen && self.partial_input_buf.position() > 0 {"),
 ("c08_marker_accepted_with_pending_input", "C08", "src/decode/lzma.rs",
  "                    if rangecoder.is_finished_ok()? {\n                        self.end_marker_seen = true;",
  "                    if rangecoder.code == 0 {\n                        self.end_marker_seen = true;"),
 ("c09_circular_len_guard_removed", "C09", "src/decode/lzbuffer.rs",
  "        if dist > self.len {\n            return Err(error::Error::LzmaError(format!(\n                \"LZ distance {} is beyond output size {}\",",
  "        if dist > self.len + self.dict_size {\n            return Err(error::Error::LzmaError(format!(\n                \"LZ distance {} is beyond output size {}\","),
 ("c09_accum_last_n_guard_off_by_one", "C09", "src/decode/lzbuffer.rs",
  "        let buf_len = self.buf.len();\n        if dist > buf_len {\n            return Err(error::Error::LzmaError(format!(\n                \"Match distance {} is beyond output size {}\",",
  "        let buf_len = self.buf.len();\n        if dist > buf_len && dist > self.len + 1 {\n            return Err(error::Error::LzmaError(format!(\n                \"Match distance {} is beyond output size {}\","),
 ("c10_limit_off_by_one", "C10", "src/decode/lzbuffer.rs",
  "            if new_len <= self.memlimit {\n                self.buf.resize(new_len, 0);",
  "            if new_len <= self.memlimit.saturating_add(1) {\n                self.buf.resize(new_len, 0);"),
 ("c10_limit_not_plumbed_into_stream", "C10", "src/decode/stream.rs",
  "                    options.memlimit.unwrap_or(usize::MAX),",
  "                    options.memlimit.map(|m| m.max(4096)).unwrap_or(usize::MAX),"),
 ("c11_xz_trailing_data_accepted", "C11", "src/decode/xz.rs",
  "    if !util::is_eof(input)? {\n        return Err(error::Error::XzError(\n            \"Unexpected data after last XZ block\".to_string(),",
  "    if !util::is_eof(input)? && input.fill_buf()?.len() > 3 {\n        return Err(error::Error::XzError(\n            \"Unexpected data after last XZ block\".to_string(),"),
 ("c12_window_flush_error_swallowed", "C12", "src/decode/lzbuffer.rs",
  "        if self.cursor == self.dict_size {\n            self.stream.write_all(self.buf.as_slice())?;",
  "        if self.cursor == self.dict_size {\n            let _ = self.stream.write_all(self.buf.as_slice());"),
 ("c12_accum_finish_no_flush", "C12", "src/decode/lzbuffer.rs",
  "        self.stream.write_all(self.buf.as_slice())?;\n        self.stream.flush()?;\n        Ok(self.stream)",
  "        self.stream.write_all(self.buf.as_slice())?;\n        Ok(self.stream)"),
 ("c12_xz_index_write_not_all", "C12", "src/encode/xz.rs",
  "    output.write_all(footer_buf.as_slice())?;",
  "    let _n = output.write(footer_buf.as_slice())?;"),
 ("c13_zero_padding_scan_stops_at_first_refill", "C13", "src/decode/util.rs",
  "        input.consume(len);\n    }",
  "        input.consume(len);\n        return Ok(true);\n    }"),
 ("c13_is_eof_from_visible_buffer", "C13", "src/decode/xz.rs",
  "        let header_size = count_input.read_u8()?;",
  "        let header_size = {\n            let b = io::BufRead::fill_buf(&mut count_input)?;\n            if b.len() == 1 && b[0] == 0 {\n                return Err(error::Error::XzError(\"truncated index\".to_string()));\n            }\n            count_input.read_u8()?\n        };"),
 ("c14_reset_with_size_skips_state_reset", "C14", "src/decode/lzma.rs",
  "        self.state.reset_state(self.params.properties);\n\n        if let Some(unpacked_size) = unpacked_size {\n            self.state.set_unpacked_size(unpacked_size);\n        }",
  "        if let Some(unpacked_size) = unpacked_size {\n            self.state.set_unpacked_size(unpacked_size);\n        } else {\n            self.state.reset_state(self.params.properties);\n        }"),
 ("c14_lzma2_reset_keeps_props", "C14", "src/decode/lzma2.rs",
  "        self.lzma_state.reset_state(LzmaProperties {\n            lc: 0,\n            lp: 0,\n            pb: 0,\n        });",
  "        let props = self.lzma_state.lzma_props;\n        self.lzma_state.reset_state(props);"),
 ("c15_allow_incomplete_skips_window_flush", "C15", "src/decode/stream.rs",
  "                    let output = state.output.finish()?;\n                    Ok(output)",
  "                    if self.options.allow_incomplete {\n                        return Ok(state.output.into_output());\n                    }\n                    let output = state.output.finish()?;\n                    Ok(output)"),
 ("c16_state_restored_after_failed_write", "C16", "src/decode/stream.rs",
  "                    Stream::read_data(&mut state, &mut input)?;\n                    State::Data(state)",
  "                    if let Err(e) = Stream::read_data(&mut state, &mut input) {\n                        self.state.replace(State::Data(state));\n                        return Err(e);\n                    }\n                    State::Data(state)"),
 ("c17_control_byte_mask_test_removed", "C17", "src/decode/lzma2.rs",
  "        if status & 0x80 == 0 {",
  "        if status & 0xC0 == 0 {"),
 ("c17_lc_lp_sum_not_checked", "C17", "src/decode/lzma2.rs",
  "                if lc + lp > 4 {",
  "                if lc + lp > 8 {"),
 ("c17_chunk_end_check_removed", "C17", "src/decode/lzma2.rs",
  "        if !rangecoder.is_finished_ok()? {\n            return Err(error::Error::LzmaError(String::from(\n                \"LZMA2 chunk does not end",
  "        if false && !rangecoder.is_finished_ok()? {\n            return Err(error::Error::LzmaError(String::from(\n                \"LZMA2 chunk does not end"),
 ("c18_sha256_skipped_and_accepted", "C18", "src/decode/xz.rs",
  ("            return Err(error::Error::XzError(\n                \"Unsupported SHA-256 checksum (not yet implemented)\".to_string(),\n            ));",
   "    if header.stream_flags.check_method == CheckMethod::Sha256 {"),
  ("            let mut skipped = [0u8; 32];\n            input.read_exact(&mut skipped)?;",
   "    if false && header.stream_flags.check_method == CheckMethod::Sha256 {")),
 ("c18_reserved_block_flag_mask_narrowed", "C18", "src/decode/xz.rs",
  "    let reserved = flags & 0x3C;",
  "    let reserved = flags & 0x30;"),
 ("c18_delta_filter_id_mapped_to_lzma2", "C18", "src/decode/xz.rs",
  "        0x21 => Ok(FilterId::Lzma2),",
  "        0x21 | 0x22 => Ok(FilterId::Lzma2),"),
]

def main():
    out = "/verif/mutants"
    os.makedirs(out, exist_ok=True)
    wt = tempfile.mkdtemp(prefix="mutgen-", dir="/tmp")
    subprocess.check_call(["git", "-C", "/repo", "worktree", "add", "-q", "--detach", wt, "HEAD"])
    index = []
    try:
        for name, prop, f, old, new in M:
            p = os.path.join(wt, f)
            s = open(p).read()
            olds, news = (old, new) if isinstance(old, tuple) else ((old,), (new,))
            if any(s.count(o) != 1 for o in olds):
                print("SKIP %s: anchor occurs %s times" % (name, [s.count(o) for o in olds]))
                continue
            for o, n in zip(olds, news):
                s = s.replace(o, n, 1)
            open(p, "w").write(s)
            d = subprocess.check_output(["git", "-C", wt, "diff"]).decode()
            open(os.path.join(out, name + ".patch"), "w").write(d)
            subprocess.check_call(["git", "-C", wt, "checkout", "-q", "--", "."])
            index.append({"name": name, "property": prop, "file": f})
        json.dump(index, open(os.path.join(out, "index.json"), "w"), indent=1)
        print("wrote %d mutants" % len(index))
    finally:
        subprocess.call(["git", "-C", "/repo", "worktree", "remove", "--force", wt])
        shutil.rmtree(wt, ignore_errors=True)

if __name__ == "__main__":
    main()

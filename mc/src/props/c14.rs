//! C14 — a reset raw decoder is indistinguishable from a new one (E2 history graph on the real raw decoders).
use crate::cases::{Case, Hex, Obs, RawH, RawOp};
use crate::common::{brief_bytes, Ctx, Tier};
use crate::explore::par_for;
use crate::refmodel::enc::{self, prog_str, Sym};
use crate::refmodel::lzma2::{self, chunks_str, Chunk};
use serde_json::json;
use std::collections::{HashMap, VecDeque};
use std::sync::atomic::Ordering;
use std::time::Instant;

#[derive(Clone, Copy)]
struct Params {
    lzma2: bool,
    lc: u32,
    lp: u32,
    pb: u32,
    dict: u32,
    size: Option<u64>,
}

fn fresh(p: &Params, size: Option<u64>) -> RawH {
    if p.lzma2 {
        RawH::new_lzma2()
    } else {
        RawH::new_lzma(p.lc, p.lp, p.pb, p.dict, size, None).expect("constructor")
    }
}

fn case_of(p: &Params, ops: &[RawOp]) -> Case {
    if p.lzma2 {
        Case::RawLzma2 { ops: ops.to_vec() }
    } else {
        Case::RawLzma { lc: p.lc, lp: p.lp, pb: p.pb, dict: p.dict, size: p.size, memlimit: None, ops: ops.to_vec() }
    }
}

struct GraphOut {
    states: u64,
    edges: u64,
    post_reset_states: u64,
    reset_checks: u64,
}

fn explore(ctx: &Ctx, p: &Params, alphabet: &[(String, RawOp)], depth: usize, label: &str) -> GraphOut {
    let mut out = GraphOut { states: 0, edges: 0, post_reset_states: 0, reset_checks: 0 };
    // node: history; key: (fingerprint, effective size, last-op-was-reset)
    let replay = |hist: &[usize]| -> (RawH, Option<u64>, bool) {
        let mut h = fresh(p, p.size);
        let mut eff = p.size;
        let mut after_reset = true; // a brand-new decoder counts as "just reset"
        for &i in hist {
            let op = &alphabet[i].1;
            let _ = h.apply(op);
            match op {
                RawOp::Reset => after_reset = true,
                RawOp::ResetSize(s) => {
                    eff = *s;
                    after_reset = true
                }
                RawOp::Dec(_) | RawOp::DecCut(..) | RawOp::DecFail(..) => after_reset = false,
            }
        }
        (h, eff, after_reset)
    };
    // the expected size in effect is part of the oracle, hence part of the key (a reset that fails to change the
    // real state must not be merged with the state the model expects)
    let mut seen: HashMap<(u128, bool, Option<u64>), usize> = HashMap::new();
    let mut q: VecDeque<Vec<usize>> = VecDeque::new();
    let mut post_reset_fps: std::collections::HashSet<u128> = std::collections::HashSet::new();
    {
        let (h, _, _) = replay(&[]);
        seen.insert((h.fingerprint(), true, p.size), 0);
        q.push_back(vec![]);
        out.states += 1;
    }
    while let Some(hist) = q.pop_front() {
        let (_, eff, after_reset) = replay(&hist);
        for (ai, (aname, op)) in alphabet.iter().enumerate() {
            // reset(None) only while the size in effect is the constructor's (both readings of its doc agree)
            if matches!(op, RawOp::Reset) && !p.lzma2 && eff != p.size {
                // the doc of reset(None) has two readings here (size of the constructor / size last specified): the
                // next decompress must behave like a new decoder under one of them; the state is not explored further
                for (bname, bop) in alphabet.iter() {
                    if let RawOp::Dec(d) = bop {
                        let (mut h, _, _) = replay(&hist);
                        let _ = h.apply(op);
                        let r = h.apply(bop);
                        out.edges += 2;
                        let agrees = |sz: Option<u64>| {
                            let mut f = fresh(p, sz);
                            let rf = f.apply(&RawOp::Dec(d.clone()));
                            r.v.class() == rf.v.class() && r.out == rf.out && (!rf.v.is_ok() || r.consumed == rf.consumed)
                        };
                        out.reset_checks += 1;
                        if !agrees(eff) && !agrees(p.size) {
                            let mut ops: Vec<RawOp> = hist.iter().map(|&i| alphabet[i].1.clone()).collect();
                            ops.push(op.clone());
                            ops.push(bop.clone());
                            let o = super::c02::obs_of(r.v.clone(), r.out.clone(), r.consumed);
                            ctx.violation(&case_of(p, &ops), &format!("{}: after reset(None), decompress({}) behaves like a new decoder with the size of the constructor ({:?}) or the size last specified ({:?})", label, bname, p.size, eff), &o, None);
                        }
                    }
                }
                continue;
            }
            let (mut h, _, _) = replay(&hist);
            let mut next = hist.clone();
            next.push(ai);
            let ops_of = |hh: &[usize]| -> Vec<RawOp> { hh.iter().map(|&i| alphabet[i].1.clone()).collect() };
            // (under the watchdog: a call that does not return is reported with the op list that reaches it)
            crate::common::slot_enter(&case_of(p, &ops_of(&next)));
            let r = h.apply(op);
            crate::common::slot_leave();
            out.edges += 1;
            if r.v.is_panic() {
                let o = Obs { ops: vec![], ..super::c02::obs_of(r.v.clone(), r.out.clone(), r.consumed) };
                ctx.violation(&case_of(p, &ops_of(&next)), &format!("{}: no operation sequence panics", label), &o, None);
                continue;
            }
            if matches!(op, RawOp::Dec(_) | RawOp::DecCut(..) | RawOp::DecFail(..)) {
                if after_reset {
                    // compare with a freshly constructed decoder with the same parameters / size in effect
                    let mut f = fresh(p, eff);
                    let rf = f.apply(op);
                    out.reset_checks += 1;
                    ctx.traces.fetch_add(1, Ordering::Relaxed);
                    let same = r.v.class() == rf.v.class() && r.out == rf.out && (!rf.v.is_ok() || r.consumed == rf.consumed);
                    if !same && !hist.is_empty() {
                        let o = super::c02::obs_of(r.v.clone(), r.out.clone(), r.consumed);
                        ctx.violation(
                            &case_of(p, &ops_of(&next)),
                            &format!("{}: after reset, decompress({}) behaves like a new decoder (size in effect {:?}): verdict {} output {} ({} bytes)", label, aname, eff, rf.v.class(), brief_bytes(&rf.out), rf.out.len()),
                            &o,
                            None,
                        );
                    }
                }
            }
            let now_reset = !matches!(op, RawOp::Dec(_) | RawOp::DecCut(..) | RawOp::DecFail(..));
            let eff_next = if let RawOp::ResetSize(sz) = op { *sz } else { eff };
            let fp = h.fingerprint();
            if now_reset {
                post_reset_fps.insert(fp);
            }
            let shallow = next.len() <= 3;
            if next.len() <= depth && (shallow || !seen.contains_key(&(fp, now_reset, eff_next))) {
                seen.insert((fp, now_reset, eff_next), next.len());
                out.states += 1;
                if next.len() < depth {
                    q.push_back(next);
                }
            }
        }
    }
    out.post_reset_states = post_reset_fps.len() as u64;
    ctx.states.fetch_add(out.states, Ordering::Relaxed);
    ctx.transitions.fetch_add(out.edges, Ordering::Relaxed);
    out
}

pub fn run(tier: Tier) -> i32 {
    let ctx = Ctx::new("C14", "model_checking", tier);
    let depth = tier.pick(7usize, 10usize);
    ctx.set_rule(&format!("E2: breadth-first search over call histories (depth <= {}) of a real raw::LzmaDecoder (3 parameter sets) and raw::Lzma2Decoder; operations: decompress(s) for s in an alphabet of streams whose result depends on leftover rep distances, automaton state, length coders or literal tables (streams starting with a short rep / rep2 / a matched literal, streams with other lc/lp/pb, chunks that inherit state), truncated / corrupt / size-mismatched streams, reset(None), reset(Some(size)) for 3 sizes. States are merged on a 128-bit fingerprint of every field of the decoder. Oracle on every decompress edge that directly follows a reset: verdict, output and bytes consumed equal those of a freshly constructed decoder with the same parameters and size in effect. post_reset_states = distinct decoder states observed right after a reset (1 per size in effect means reset is perfect for ALL follow-ups, not only the alphabet). distinct_nontrivial = reset-then-decompress comparisons made after at least one earlier decompress.", depth));
    ctx.assume("fingerprint hook covers every field of DecoderState / LzmaDecoder (hook lists them by name)");
    // ---- stream alphabet for the LZMA raw decoder
    let progs: Vec<(&str, Vec<Sym>, bool)> = vec![
        ("lits", (0..9u8).map(|i| Sym::L(0x61 + i * 7)).collect(), false),
        ("4reps", vec![Sym::L(1), Sym::L(2), Sym::L(3), Sym::L(4), Sym::L(5), Sym::M(1, 2), Sym::M(3, 2), Sym::M(2, 2), Sym::M(4, 3), Sym::R(3, 2), Sym::R(2, 5)], false),
        ("lit-then-shortrep", vec![Sym::L(0x41), Sym::S, Sym::L(0x42)], false),
        ("rep2-early", vec![Sym::L(1), Sym::L(2), Sym::L(3), Sym::R(2, 2), Sym::R(1, 2)], false),
        ("trained", {
            let mut v = vec![Sym::L(0x41); 30];
            v.extend([Sym::M(1, 18), Sym::M(1, 18), Sym::M(1, 18), Sym::L(0x42), Sym::M(5, 9)]);
            v
        }, false),
        ("marker-terminated", vec![Sym::L(9), Sym::L(8), Sym::M(2, 4), Sym::S, Sym::E], true),
        ("far-match", {
            let mut v: Vec<Sym> = (0..40u8).map(|i| Sym::L(i.wrapping_mul(7).wrapping_add(3))).collect();
            v.extend([Sym::M(35, 10), Sym::L(1), Sym::M(50, 6)]);
            v
        }, false),
    ];
    let psets: Vec<Params> = vec![
        Params { lzma2: false, lc: 3, lp: 0, pb: 2, dict: 4096, size: Some(9) },
        Params { lzma2: false, lc: 0, lp: 2, pb: 0, dict: 8, size: None },
        Params { lzma2: false, lc: 1, lp: 1, pb: 4, dict: 65536, size: Some(17) },
    ];
    let mut jobs: Vec<(Params, Vec<(String, RawOp)>, String)> = Vec::new();
    for p in &psets {
        let mut al: Vec<(String, RawOp)> = Vec::new();
        let mut sizes: Vec<Option<u64>> = vec![None, Some(u64::MAX)];
        for (name, prog, _marker) in &progs {
            let e = enc::encode(p.lc, p.lp, p.pb, p.dict as u64, prog);
            if e.bad.is_some() {
                continue; // e.g. the far-match stream on the 8-byte dictionary
            }
            al.push((format!("{} [{}] ({} bytes out)", name, prog_str(prog), e.expect.len()), RawOp::Dec(Hex(e.payload.clone()))));
            if *name == "lits" || *name == "4reps" || *name == "far-match" {
                sizes.push(Some(e.expect.len() as u64));
            }
            if *name == "lits" {
                // failures in which not a single symbol completes
                al.push(("only the 5 coder start bytes".into(), RawOp::Dec(Hex(e.payload[..5].to_vec()))));
                al.push(("first symbol is a rep match on an empty window".into(), RawOp::Dec(Hex(vec![0x00, 0xFF, 0xFF, 0xFF, 0xFF, 0xFF, 0xFF, 0xFF, 0xFF]))));
            }
            if *name == "4reps" {
                let mut t = e.payload.clone();
                t.truncate(t.len() - 4);
                al.push(("4reps truncated".into(), RawOp::Dec(Hex(t))));
                let mut c = e.payload.clone();
                let m = c.len() / 2;
                c[m] ^= 0x5A;
                al.push(("4reps corrupt in the middle".into(), RawOp::Dec(Hex(c))));
            }
        }
        {
            // ill-formed: a copy that reaches back before the start of ITS OWN output (distance 3 after one byte; within every
            // dictionary used here): a new decoder refuses it; a reused one must not find bytes of an earlier stream there
            let mut m = enc::Model::new(p.lc, p.lp, p.pb).with_dict(1 << 20);
            m.wrong_zeros_outside_window = true;
            let payload = enc::encode_with(&mut m, &[Sym::L(0x41), Sym::M(3, 2), Sym::L(0x45), Sym::E]).payload;
            al.push(("one literal, a copy at distance 3 (before the start of this stream's output), a literal, end marker".into(), RawOp::Dec(Hex(payload))));
        }
        al.push(("reset(None)".into(), RawOp::Reset));
        for s in sizes {
            al.push((format!("reset(Some({:?}))", s), RawOp::ResetSize(s)));
        }
        jobs.push((*p, al, format!("raw::LzmaDecoder lc={} lp={} pb={} dict={} size={:?}", p.lc, p.lp, p.pb, p.dict, p.size)));
    }
    // ---- LZMA2
    {
        let seqs: Vec<(&str, Vec<Chunk>)> = vec![
            ("well-formed (3,0,2)", vec![Chunk::C { class: 3, props: (3, 0, 2), prog: vec![Sym::L(1), Sym::L(2), Sym::L(3), Sym::L(4), Sym::M(1, 2), Sym::M(3, 2), Sym::M(2, 2), Sym::M(4, 3)] }]),
            ("well-formed (1,3,4)", vec![Chunk::C { class: 3, props: (1, 3, 4), prog: (0..30u32).map(|i| Sym::L(((i * 73 + 5) & 0xFF) as u8)).chain([Sym::M(7, 5)]).collect() }]),
            ("uncompressed then inherit-state chunk", vec![Chunk::U { reset: true, data: b"abcdef".to_vec() }, Chunk::C { class: 0, props: (0, 0, 0), prog: vec![Sym::L(0x67), Sym::S, Sym::R(2, 2)] }]),
            ("uncompressed then state-reset chunk with old props", vec![Chunk::U { reset: true, data: b"abcdef".to_vec() }, Chunk::C { class: 1, props: (0, 0, 0), prog: (0..20u32).map(|i| Sym::L(((i * 37 + 1) & 0xFF) as u8)).chain([Sym::M(3, 4)]).collect() }]),
            ("trained then inherit", vec![Chunk::C { class: 3, props: (0, 0, 0), prog: vec![Sym::L(0x41); 40] }, Chunk::C { class: 0, props: (0, 0, 0), prog: vec![Sym::L(0x41), Sym::L(0x42), Sym::R(0, 3)] }]),
        ];
        let mut al: Vec<(String, RawOp)> = Vec::new();
        {
            // heavily trained non-literal probabilities, then the input ends inside the chunk (the call fails after
            // hundreds of symbols have been decoded)
            let mut prog = vec![Sym::L(0x41)];
            for k in 0..80u32 {
                prog.extend([Sym::M(1, 3), Sym::L(0x41 + (k % 3) as u8), Sym::R(0, 2)]);
            }
            let w = lzma2::write(&[Chunk::C { class: 3, props: (3, 0, 2), prog }]);
            al.push(("trained chunk (80 x match, literal, rep) cut 4 bytes before its end".into(), RawOp::Dec(Hex(w.bytes[..w.bytes.len() - 5].to_vec()))));
        }
        for (name, cs) in &seqs {
            let w = lzma2::write(cs);
            al.push((format!("{} [{}]", name, chunks_str(cs)), RawOp::Dec(Hex(w.bytes.clone()))));
            if name.starts_with("uncompressed then inherit") {
                // truncated inside the payload of the uncompressed chunk
                al.push(("uncompressed chunk truncated inside its payload".into(), RawOp::Dec(Hex(w.bytes[..6].to_vec()))));
                // the same streams from a source that hands over one byte (three bytes) per refill
                al.push(("uncompressed then inherit-state chunk, read bytewise".into(), RawOp::DecCut(Hex(w.bytes.clone()), 1)));
                al.push(("uncompressed chunk truncated inside its payload, read 3 bytes at a time".into(), RawOp::DecCut(Hex(w.bytes[..6].to_vec()), 3)));
            }
            if name.starts_with("well-formed (3,0,2)") {
                let mut t = w.bytes.clone();
                t.truncate(t.len() - 3);
                al.push(("well-formed (3,0,2) truncated".into(), RawOp::Dec(Hex(t))));
                let mut c = w.bytes.clone();
                let m = c.len() - 4;
                c[m] ^= 0x33;
                al.push(("well-formed (3,0,2) corrupt".into(), RawOp::Dec(Hex(c))));
                // the same stream with an illegal properties byte and an untouched payload (a decoder that remembers anything
                // about a refused byte - or about the last accepted one - across reset() decodes it under the old properties)
                for (v, what) in [(225u8, "225"), (45u8, "45 (lc 0, lp 5)")] {
                    if let Some(po) = w.layout.first().and_then(|l| l.props_off) {
                        let mut b = w.bytes.clone();
                        b[po] = v;
                        al.push((format!("well-formed (3,0,2) with properties byte := {}", what), RawOp::Dec(Hex(b))));
                    }
                }
            }
        }
        {
            // a decode that fails because the sink refuses the bytes handed over at a dictionary reset, in the middle of a
            // switch to other lc/lp/pb (the decoder is left between two chunks)
            let w = lzma2::write(&[Chunk::U { reset: true, data: b"uvwxyz".to_vec() }, Chunk::C { class: 3, props: (3, 0, 2), prog: vec![Sym::L(0x71), Sym::L(0x72), Sym::M(1, 3)] }]);
            al.push(("uncompressed chunk then dictionary-reset chunk with new properties (3,0,2), into a sink whose first write fails".into(), RawOp::DecFail(Hex(w.bytes.clone()), 0)));
        }
        al.push(("reset()".into(), RawOp::Reset));
        jobs.push((Params { lzma2: true, lc: 0, lp: 0, pb: 0, dict: 0, size: None }, al, "raw::Lzma2Decoder".into()));
    }
    let t0 = Instant::now();
    par_for(jobs.len() as u64, |i| {
        let (p, al, label) = &jobs[i as usize];
        let d = if p.lzma2 { depth + 1 } else { depth };
        let g = explore(&ctx, p, al, d, label);
        ctx.eval(g.edges);
        ctx.nontriv(g.reset_checks);
        ctx.sample(json!({"object": label, "alphabet": al.iter().map(|a| a.0.clone()).collect::<Vec<_>>(), "depth": d, "states": g.states, "edges": g.edges, "reset_then_decompress_checks": g.reset_checks, "post_reset_states": g.post_reset_states}));
    });
    ctx.scope_done("history-graphs", jobs.len() as u64, t0, "3 LZMA parameter sets + LZMA2");
    // ---------------------------------------------------------------- symbol-level histories: EVERY program over {literal, match at
    // distance 1} up to depth d as the first stream, reset, then a fixed probe stream - a reset that is skipped or cut
    // short when the used decoder "looks" untouched (a probability that happens to be back at its initial value, state 0,
    // rep distances 0) shows up for the few programs that produce that look
    {
        let t1 = Instant::now();
        let d = tier.pick(17u32, 21u32);
        let total: u64 = (1u64 << (d + 1)) - 2; // programs of length 1..=d over a 2-letter alphabet
        let probe: Vec<Sym> = {
            let mut v: Vec<Sym> = (0..6u32).map(|i| Sym::L(0x61 + i as u8 * 5)).collect();
            for k in 0..40u32 {
                v.extend([Sym::M(1 + k % 5, 2 + k % 7), Sym::L(0x30 + (k % 9) as u8)]);
                if k % 3 == 0 {
                    v.push(Sym::S);
                }
                if k % 4 == 1 {
                    v.push(Sym::R((k % 3) as u8, 2 + k % 5));
                    v.push(Sym::L(0x51));
                }
            }
            v
        };
        let p = Params { lzma2: false, lc: 0, lp: 0, pb: 0, dict: 4096, size: None };
        let ep = enc::encode(0, 0, 0, 4096, &probe);
        let fresh_out = {
            let mut f = fresh(&p, Some(ep.expect.len() as u64));
            f.apply(&RawOp::Dec(Hex(ep.payload.clone())))
        };
        par_for(total, |i| {
            // i -> (length, bits)
            let mut len = 1u32;
            let mut idx = i;
            while idx >= (1u64 << len) {
                idx -= 1u64 << len;
                len += 1;
            }
            let mut prog: Vec<Sym> = Vec::with_capacity(len as usize + 1);
            prog.push(Sym::L(0x61));
            for b in 0..len {
                prog.push(if (idx >> b) & 1 == 0 { Sym::L(0x61) } else { Sym::M(1, 2) });
            }
            let e = enc::encode(0, 0, 0, 4096, &prog);
            let ops = vec![RawOp::Dec(Hex(e.payload.clone())), RawOp::ResetSize(Some(ep.expect.len() as u64)), RawOp::Dec(Hex(ep.payload.clone()))];
            let case = Case::RawLzma { lc: 0, lp: 0, pb: 0, dict: 4096, size: Some(e.expect.len() as u64), memlimit: None, ops };
            let o = crate::cases::run_case(&case);
            ctx.eval(1);
            ctx.traces.fetch_add(1, Ordering::Relaxed);
            let ok = o.ops.len() == 3 && o.ops[0].v.is_ok() && o.ops[2].v.class() == fresh_out.v.class() && o.out.0 == fresh_out.out && o.ops[2].n == Some(fresh_out.consumed as u64);
            if !ok {
                ctx.violation(&case, &format!("raw::LzmaDecoder (lc=lp=pb=0): first stream [{}] ({} bytes, size known), reset(Some(size)), then the probe stream: behaves like a new decoder ({} bytes, {} input bytes)", prog_str(&prog), e.expect.len(), fresh_out.out.len(), fresh_out.consumed), &o, None);
            }
        });
        ctx.nontriv(total);
        ctx.scope_done("symbol-level-histories", total, t1, &format!("all {} programs over {{L, M(1,2)}} of length <= {} as the stream before the reset", total, d));
    }
    // ---------------------------------------------------------------- histories under a memory limit: the limit and the size in effect
    // after reset(Some(..)) are the ones a new decoder with these parameters would have
    {
        let t1 = Instant::now();
        let mk = |n: usize| enc::encode(3, 0, 2, 4096, &(0..n as u32).map(|i| Sym::L((i * 7 + 0x41) as u8)).collect::<Vec<_>>());
        let mut n = 0u64;
        for (size0, m, k) in [(100u64, 16u64, 8usize), (100, 16, 16), (100, 16, 17), (8, 16, 100), (8, 16, 16), (5000, 4096, 4000), (5000, 4096, 4097), (3, 0, 0), (3, 1, 1)] {
            for reset_none_first in [false, true] {
                let e0 = mk(size0 as usize);
                let ek = mk(k);
                let mut ops = vec![RawOp::Dec(Hex(e0.payload.clone()))];
                if reset_none_first {
                    ops.push(RawOp::Reset);
                    ops.push(RawOp::Dec(Hex(e0.payload.clone())));
                }
                ops.push(RawOp::ResetSize(Some(k as u64)));
                ops.push(RawOp::Dec(Hex(ek.payload.clone())));
                let case = Case::RawLzma { lc: 3, lp: 0, pb: 2, dict: 4096, size: Some(size0), memlimit: Some(m), ops };
                let o = crate::cases::run_case(&case);
                let f = crate::cases::run_case(&Case::RawLzma { lc: 3, lp: 0, pb: 2, dict: 4096, size: Some(k as u64), memlimit: Some(m), ops: vec![RawOp::Dec(Hex(ek.payload.clone()))] });
                n += 1;
                ctx.eval(1);
                ctx.nontriv(1);
                let (a, b) = (o.ops.last(), f.ops.last());
                let same = match (a, b) {
                    (Some(x), Some(y)) => x.v.class() == y.v.class() && o.out == f.out && (!y.v.is_ok() || x.n == y.n),
                    _ => false,
                };
                if !same || o.ops.iter().any(|r| r.v.is_panic()) {
                    ctx.violation(&case, &format!("raw::LzmaDecoder constructed with size {} and memory limit {}: decode, reset(Some(Some({}))), decode {} literals: the last call behaves like a new decoder with size {} and limit {} ({:?})", size0, m, k, k, k, m, b.map(|y| (y.v.class(), y.sink_len))), &o, None);
                }
            }
        }
        ctx.scope_done("histories-under-a-memory-limit", n, t1, "");
    }
    // ---------------------------------------------------------------- per-variable training: one adaptive probability (tree node)
    // driven to a rail by 40 equal symbols, reset, then the sibling symbols that use the same node with the other bit
    // value: every distance 1..=130 (all position-decoder nodes) and the slot edges up to 4096, every match length and
    // rep-match length 2..=273 (choice bits, low / mid / high trees of both length coders)
    {
        let t1 = Instant::now();
        #[derive(Clone, Copy)]
        enum Var {
            Dist(u32),
            Len(u32),
            RepLen(u32),
            /// literal context row r (lc = 3: the 3 high bits of the previous byte), used for the first time only after
            /// `switches` alternations between two other rows
            LitRow(u8, u32),
        }
        let mut vars: Vec<Var> = Vec::new();
        for d in 1..=130u32 {
            vars.push(Var::Dist(d));
        }
        for e in 7..=12u32 {
            for d in [(1u32 << e) - 1, 1 << e, (1 << e) + 1, 3 << (e - 1)] {
                vars.push(Var::Dist(d));
            }
        }
        let lens: Vec<u32> = tier.pick((2..=273u32).filter(|l| *l < 40 || l % 8 < 2 || *l > 265).collect(), (2..=273u32).collect());
        for &l in &lens {
            vars.push(Var::Len(l));
            vars.push(Var::RepLen(l));
        }
        for r in 0..8u8 {
            for switches in [3u32, 70, 200] {
                vars.push(Var::LitRow(r, switches));
            }
        }
        let prefix: Vec<Sym> = (0..4200u32).map(|i| if i < 300 { Sym::L(((i * 37 + i / 5 + 1) & 0xFF) as u8) } else { Sym::M(1 + (i * 7) % 290, 2 + (i % 5)) }).collect::<Vec<_>>();
        // (300 varied literals, then short copies until at least 4200 bytes exist, so that every distance used is valid)
        let mut pre: Vec<Sym> = Vec::new();
        let mut produced = 0usize;
        for s_ in &prefix {
            if produced >= 4200 {
                break;
            }
            produced += match s_ {
                Sym::M(_, l) => *l as usize,
                _ => 1,
            };
            pre.push(*s_);
        }
        let sym_of = |v: Var| match v {
            Var::Dist(d) => vec![Sym::M(d, 2), Sym::L(0x55)],
            Var::Len(l) => vec![Sym::M(3, l), Sym::L(0x56)],
            Var::RepLen(l) => vec![Sym::R(0, l), Sym::L(0x57)],
            // previous byte in row r, then a literal whose bits all go one way (0xFF)
            Var::LitRow(r, _) => vec![Sym::L((r << 5) | 0x1F), Sym::L(0xFF)],
        };
        let siblings = |v: Var| -> Vec<Var> {
            let mut o = Vec::new();
            match v {
                Var::Dist(d) => {
                    for k in 0..12 {
                        let x = ((d - 1) ^ (1 << k)) + 1;
                        if x >= 1 && x <= 4200 {
                            o.push(Var::Dist(x));
                        }
                    }
                }
                Var::LitRow(r, sw) => {
                    // the same row with literals whose bits go the other way
                    for x in [0x00u8, 0x55, 0xAA, 0x0F] {
                        let _ = x;
                        o.push(Var::LitRow(r, sw));
                    }
                }
                Var::Len(l) | Var::RepLen(l) => {
                    for k in 0..8 {
                        let x = ((l - 2) ^ (1 << k)) + 2;
                        if (2..=273).contains(&x) {
                            o.push(if matches!(v, Var::Len(_)) { Var::Len(x) } else { Var::RepLen(x) });
                        }
                    }
                    for x in [2u32, 9, 10, 17, 18, 273] {
                        o.push(if matches!(v, Var::Len(_)) { Var::Len(x) } else { Var::RepLen(x) });
                    }
                }
            }
            o
        };
        let p = Params { lzma2: false, lc: 3, lp: 0, pb: 2, dict: 8192, size: None };
        par_for(vars.len() as u64, |i| {
            let v = vars[i as usize];
            let (train, probe) = if let Var::LitRow(r, sw) = v {
                // literal-only streams: `sw` alternations between two other rows first, then 40 uses of row r
                let (a, b) = if r >= 2 { (0x00u8, 0x20u8) } else { (0xC0u8, 0xE0u8) };
                let mut train: Vec<Sym> = Vec::new();
                for _ in 0..sw {
                    train.push(Sym::L(a));
                    train.push(Sym::L(b));
                }
                for _ in 0..40 {
                    train.extend(sym_of(v));
                }
                train.push(Sym::E);
                let mut probe: Vec<Sym> = vec![Sym::L(a), Sym::L(b)];
                for x in [0x00u8, 0x55, 0xAA, 0x0F, 0x80, 0x01] {
                    probe.push(Sym::L((r << 5) | 0x1F));
                    probe.push(Sym::L(x));
                }
                probe.push(Sym::E);
                (train, probe)
            } else {
                let mut train = pre.clone();
                train.push(Sym::M(3, 2)); // rep0 = 3 for the rep-length variables
                for _ in 0..40 {
                    train.extend(sym_of(v));
                }
                train.push(Sym::E);
                let mut probe = pre.clone();
                probe.push(Sym::M(3, 2));
                for sb in siblings(v) {
                    probe.extend(sym_of(sb));
                }
                probe.extend(sym_of(v));
                probe.push(Sym::E);
                (train, probe)
            };
            let et = enc::encode(3, 0, 2, 8192, &train);
            let ep = enc::encode(3, 0, 2, 8192, &probe);
            if et.bad.is_some() || ep.bad.is_some() {
                return;
            }
            let ops = vec![RawOp::Dec(Hex(et.payload.clone())), RawOp::Reset, RawOp::Dec(Hex(ep.payload.clone()))];
            let case = case_of(&p, &ops);
            let o = crate::cases::run_case(&case);
            ctx.eval(3);
            ctx.nontriv(1);
            ctx.traces.fetch_add(1, Ordering::Relaxed);
            let ok = o.ops.len() == 3 && o.ops[0].v.is_ok() && o.ops[2].v.is_ok() && o.out.0 == ep.expect && o.ops[2].n == Some(ep.payload.len() as u64);
            if !ok {
                let what = match v {
                    Var::Dist(d) => format!("distance {}", d),
                    Var::Len(l) => format!("match length {}", l),
                    Var::RepLen(l) => format!("rep-match length {}", l),
                    Var::LitRow(r, sw) => format!("literal context row {} (first used after {} alternations between two other rows)", r, sw),
                };
                ctx.violation(&case, &format!("raw::LzmaDecoder: 40 symbols with {} (one tree path trained to the rail), reset(None), then a stream using the sibling paths: behaves like a new decoder (Ok, {} bytes, {} input bytes)", what, ep.expect.len(), ep.payload.len()), &o, None);
            }
        });
        ctx.scope_done("per-variable-training", vars.len() as u64, t1, "every distance 1..130 + slot edges, match and rep-match lengths, trained then probed through their sibling paths after a reset");
    }
    // ---------------------------------------------------------------- long reuse: counters that wrap (8 / 16 bit) between two uses
    // history: decompress(A), then c-1 times [reset, decompress(B)], then reset, decompress(A'): the last call must behave
    // like a new decoder, for c around 2^8, 2*2^8 and 2^16 (B never touches the literal contexts A and A' use)
    {
        let t1 = Instant::now();
        let hi: Vec<Sym> = (0..40u32).map(|i| Sym::L(0xE0 + ((i * 7) % 32) as u8)).chain([Sym::M(3, 5), Sym::L(0xFF)]).collect();
        let hi2: Vec<Sym> = (0..30u32).map(|i| Sym::L(0xE1 + ((i * 11) % 30) as u8)).chain([Sym::M(7, 9), Sym::L(0xF0), Sym::S]).collect();
        let lo: Vec<Sym> = (0..12u32).map(|i| Sym::L(((i * 5) % 32) as u8)).collect();
        let counts: Vec<usize> = tier.pick(vec![255, 256, 257, 512, 65536], vec![2, 3, 127, 128, 255, 256, 257, 511, 512, 513, 1024, 65535, 65536, 65537]);
        // (kind 0: LZMA lc=3; 1: LZMA2; 2: LZMA with lc=5 (more than 16 literal contexts: settings LZMA2 cannot have))
        let mut items: Vec<(u8, usize)> = Vec::new();
        for &c in &counts {
            items.push((0, c));
            items.push((2, c));
            if c <= 1024 {
                items.push((1, c));
            }
        }
        par_for(items.len() as u64, |i| {
            let (kind, c) = items[i as usize];
            let lzma2 = kind == 1;
            let lc = if kind == 2 { 5 } else { 3 };
            let (a, b, a2, p) = if lzma2 {
                let mk = |prog: &Vec<Sym>| lzma2::write(&[Chunk::C { class: 3, props: (3, 0, 2), prog: prog.clone() }]).bytes;
                (mk(&hi), mk(&lo), mk(&hi2), Params { lzma2: true, lc: 0, lp: 0, pb: 0, dict: 0, size: None })
            } else {
                let mk = |prog: &Vec<Sym>| {
                    let mut q = prog.clone();
                    q.push(Sym::E);
                    enc::encode(lc, 0, 2, 4096, &q).payload
                };
                (mk(&hi), mk(&lo), mk(&hi2), Params { lzma2: false, lc, lp: 0, pb: 2, dict: 4096, size: None })
            };
            let mut ops = vec![RawOp::Dec(Hex(a))];
            for _ in 1..c {
                ops.push(RawOp::Reset);
                ops.push(RawOp::Dec(Hex(b.clone())));
            }
            ops.push(RawOp::Reset);
            ops.push(RawOp::Dec(Hex(a2.clone())));
            let case = case_of(&p, &ops);
            let o = crate::cases::run_case(&case);
            let fresh_case = case_of(&p, &[RawOp::Dec(Hex(a2))]);
            let f = crate::cases::run_case(&fresh_case);
            ctx.eval(ops.len() as u64);
            ctx.nontriv(1);
            ctx.traces.fetch_add(1, Ordering::Relaxed);
            let (lo_, lf) = (o.ops.last(), f.ops.last());
            let same = match (lo_, lf) {
                (Some(x), Some(y)) => x.v.class() == y.v.class() && x.n == y.n && x.sink_len == y.sink_len && o.out == f.out && o.ops.iter().all(|r| !r.v.is_panic()),
                _ => false,
            };
            if !same || !lf.map_or(false, |y| y.v.is_ok()) {
                ctx.violation(&case, &format!("{}: decompress(A), then {} x [reset, decompress(B)], reset, decompress(A'): the last call behaves like a new decoder ({:?})", if lzma2 { "raw::Lzma2Decoder" } else { "raw::LzmaDecoder" }, c - 1, lf.map(|y| (y.v.class(), y.n, y.sink_len))), &o, None);
            }
        });
        ctx.scope_done("long-reuse-cycles", items.len() as u64, t1, "reset counts around 2^8, 2^9 and 2^16");
    }
    ctx.finish()
}

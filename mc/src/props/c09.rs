//! C09 — references outside the produced window are always rejected (E4 window model checking + E1 invalid programs).
use super::c02::obs_of;
use super::window;
use crate::cases::{dec_plain, Case, Fmt, Hex, Opts, RawH, RawOp, Rd, SizeOpt, Sk};
use crate::common::{brief_bytes, Ctx, Tier};
use crate::explore::par_for;
use crate::refmodel::enc::{self, prog_str, Sym};
use crate::refmodel::lzma2::{self, chunks_str, Chunk};
use serde_json::json;
use std::sync::atomic::Ordering;
use std::time::Instant;

fn lits(n: usize) -> Vec<Sym> {
    (0..n).map(|i| Sym::L((0x61 + i * 7) as u8)).collect()
}

/// Encode `prog` whose LAST symbol is the invalid one; returns (payload, valid-prefix output, claimed size).
fn build_invalid(lc: u32, lp: u32, pb: u32, dict: u64, prog: &[Sym]) -> Option<(Vec<u8>, Vec<u8>, u64)> {
    let e = enc::encode(lc, lp, pb, dict, prog);
    if e.bad != Some(prog.len() - 1) {
        return None; // not "valid prefix + one invalid symbol"
    }
    let l = match prog[prog.len() - 1] {
        Sym::M(_, l) | Sym::R(_, l) => l as u64,
        Sym::S | Sym::L(_) => 1,
        Sym::E | Sym::EL(_) => 0,
    };
    Some((e.payload, e.expect.clone(), e.expect.len() as u64 + l))
}

pub fn run(tier: Tier) -> i32 {
    let ctx = Ctx::new("C09", "model_checking", tier);
    ctx.set_rule("E4: breadth-first closure of the reachable states of the real LzCircularBuffer (dict 1..N, histories up to 2*dict+3 bytes over {a,b}) and LzAccumBuffer (histories up to L bytes, with resets and raw appends); in every state last_n(d) / append_lz(l,d) for every d in 1..len+2 and {dict, dict+1, 2^32-1, 2^32} must be Err exactly when d exceeds min(produced, dict) and otherwise agree with a Vec<u8> history model; state unchanged by a rejected reference. E1: symbol programs consisting of a valid prefix plus one copy (match / short rep / rep0-3 / matched literal) whose distance is produced+1, produced+2, dict+1 or 2^32-1, at every position relative to the wrap point, through lzma_decompress, raw::LzmaDecoder, lzma2_decompress and xz_decompress: must be Err and the bytes delivered must be a prefix of the valid prefix's output. distinct_nontrivial = invalid references submitted (window probes + programs).");
    ctx.assume("reference encoder emits the invalid symbol's bits faithfully (bound to liblzma on valid programs by `lzmc bind`)");

    // ---------------------------------------------------------------- E4 circular
    {
        let nmax = tier.pick(5usize, 7usize);
        let name = format!("E4/circular/dict=1..{}", nmax);
        if ctx.may_start(&name) {
            let t0 = Instant::now();
            let cfgs: Vec<usize> = (1..=nmax).collect();
            let tot = std::sync::Mutex::new((0u64, 0u64, 0u64));
            par_for(cfgs.len() as u64, |i| {
                let d = cfgs[i as usize];
                let st = window::explore(&ctx, true, d, u64::MAX, 2 * d + 3);
                ctx.eval(st.transitions + st.probes);
                ctx.nontriv(st.invalid_refs_rejected);
                let mut t = tot.lock().unwrap();
                t.0 += st.states;
                t.1 += st.transitions;
                t.2 += st.invalid_refs_rejected;
                ctx.sample(json!({"scope": "E4/circular", "dict": d, "max_history": 2*d+3, "states": st.states, "transitions": st.transitions, "probes": st.probes, "invalid_references_rejected": st.invalid_refs_rejected}));
            });
            let t = tot.lock().unwrap();
            ctx.scope_done(&name, t.1, t0, &format!("{} states, {} transitions, {} invalid references probed", t.0, t.1, t.2));
        }
    }
    // ---------------------------------------------------------------- E4 accumulating
    {
        let lmax = tier.pick(10usize, 13usize);
        let name = format!("E4/accumulating/history<={}", lmax);
        if ctx.may_start(&name) {
            let t0 = Instant::now();
            let st = window::explore(&ctx, false, 0, u64::MAX, lmax);
            ctx.eval(st.transitions + st.probes);
            ctx.nontriv(st.invalid_refs_rejected);
            ctx.sample(json!({"scope": "E4/accumulating", "max_history": lmax, "states": st.states, "transitions": st.transitions, "probes": st.probes, "invalid_references_rejected": st.invalid_refs_rejected}));
            ctx.scope_done(&name, st.transitions, t0, &format!("{} states, {} invalid references probed", st.states, st.invalid_refs_rejected));
        }
    }

    // ---------------------------------------------------------------- E1: invalid programs, raw decoder on tiny dictionaries
    {
        let nmax = tier.pick(7usize, 12usize);
        let name = format!("E1/raw/dict=1..{}", nmax);
        if ctx.may_start(&name) {
            let t0 = Instant::now();
            let mut items: Vec<(usize, Vec<Sym>)> = Vec::new();
            for n in 1..=nmax {
                // (a) at the very start
                for s in [Sym::S, Sym::R(0, 2), Sym::R(1, 3), Sym::R(2, 9), Sym::R(3, 18), Sym::M(1, 2), Sym::M(2, 2)] {
                    items.push((n, vec![s]));
                }
                for j in 1..=(2 * n + 3) {
                    let mut dists: Vec<u64> = vec![j as u64 + 1, j as u64 + 2, 0xFFFF_FFFF, 0x8000_0000, n as u64 + 1, n as u64 + 2];
                    dists.retain(|&d| d > j as u64 || d > n as u64);
                    dists.sort_unstable();
                    dists.dedup();
                    // (b) after j literals
                    for &d in &dists {
                        for l in [2u32, 3, n as u32 + 2] {
                            let mut p = lits(j);
                            p.push(Sym::M(d as u32, l));
                            items.push((n, p));
                        }
                    }
                    // (c) after j literals and a valid match (so the cursor is anywhere relative to the wrap point), then
                    //     an invalid match, and rep variants that re-use an invalid distance is impossible (reps are valid once set)
                    for dv in 1..=n.min(j) {
                        for lv in [2usize, n + 1, 2 * n + 1] {
                            let produced = j + lv;
                            let mut ds: Vec<u64> = vec![n as u64 + 1, 0xFFFF_FFFF];
                            if produced < n {
                                ds.push(produced as u64 + 1);
                            }
                            for d in ds {
                                let mut p = lits(j);
                                p.push(Sym::M(dv as u32, lv as u32));
                                p.push(Sym::M(d as u32, 2));
                                items.push((n, p));
                            }
                        }
                    }
                }
            }
            par_for(items.len() as u64, |i| {
                let (n, prog) = &items[i as usize];
                let (lc, lp, pb) = [(3, 0, 2), (0, 0, 0), (2, 2, 2)][i as usize % 3];
                let Some((payload, prefix_out, size)) = build_invalid(lc, lp, pb, *n as u64, prog) else { return };
                ctx.eval(1);
                ctx.nontriv(1);
                ctx.states.fetch_add(1, Ordering::Relaxed);
                ctx.transitions.fetch_add(1, Ordering::Relaxed);
                for sz in [Some(size), None] {
                    let case = Case::RawLzma { lc, lp, pb, dict: *n as u32, size: sz, memlimit: None, ops: vec![RawOp::Dec(Hex(payload.clone()))] };
                    let r = match RawH::new_lzma(lc, lp, pb, *n as u32, sz, None) {
                        Ok(mut h) => h.apply(&RawOp::Dec(Hex(payload.clone()))),
                        Err(_) => return,
                    };
                    ctx.traces.fetch_add(1, Ordering::Relaxed);
                    if !(r.v.is_err() && prefix_out.starts_with(&r.out)) {
                        ctx.violation(&case, &format!("program [{}] (last symbol references outside the window, dict {}): Err, delivered bytes a prefix of {}", prog_str(prog), n, brief_bytes(&prefix_out)), &obs_of(r.v, r.out, r.consumed), None);
                    }
                    // the same stream on a REUSED decoder that was constructed for (and has decoded) a tiny stream that fits in
                    // the dictionary, then told the new size by reset(Some(..)): the window rules follow the stream at hand
                    if i % 4 == 0 {
                        let tiny = enc::encode(lc, lp, pb, *n as u64, &[Sym::L(0x21)]);
                        let ops = vec![RawOp::Dec(Hex(tiny.payload.clone())), RawOp::ResetSize(sz), RawOp::Dec(Hex(payload.clone()))];
                        let case = Case::RawLzma { lc, lp, pb, dict: *n as u32, size: Some(1), memlimit: None, ops };
                        let o = crate::cases::run_case(&case);
                        ctx.traces.fetch_add(1, Ordering::Relaxed);
                        let ok = o.ops.len() == 3 && o.ops[0].v.is_ok() && o.ops[2].v.is_err() && prefix_out.starts_with(&o.out.0);
                        if !ok {
                            ctx.violation(&case, &format!("raw decoder constructed with size 1 (fits the {}-byte dictionary), decodes [L21], reset(Some({:?})), then program [{}] whose last symbol references outside the window: Err, delivered bytes a prefix of {}", n, sz, prog_str(prog), brief_bytes(&prefix_out)), &o, None);
                        }
                    }
                }
                if i % 5003 == 1 {
                    ctx.sample(json!({"scope": name, "dict": n, "program": prog_str(prog), "valid_prefix_output": brief_bytes(&prefix_out)}));
                }
            });
            ctx.scope_done(&name, items.len() as u64, t0, "valid prefix + one out-of-window copy, size-bounded and marker mode");
        }
    }

    // ---------------------------------------------------------------- E1: public API (dict >= 4096)
    {
        let name = "E1/public/dict=4096";
        if ctx.may_start(name) {
            let t0 = Instant::now();
            let mut items: Vec<(Vec<Sym>, u32)> = Vec::new();
            // produced < dict: dist = produced+1, produced+2, 2^32-1 at several positions
            for j in [0usize, 1, 2, 7, 100] {
                for extra in [1u64, 2] {
                    let mut p = lits(j);
                    p.push(Sym::M((j as u64 + extra) as u32, 2));
                    items.push((p, 4096));
                }
                let mut p = lits(j);
                p.push(Sym::M(0xFFFF_FFFF, 5));
                items.push((p, 4096));
                if j == 0 {
                    for s in [Sym::S, Sym::R(0, 2), Sym::R(1, 2), Sym::R(2, 2), Sym::R(3, 2)] {
                        items.push((vec![s], 4096));
                    }
                }
            }
            // produced > dict: dist = dict+1 (stale lap), at cursor positions around the wrap
            for over in tier.pick(vec![0usize, 1, 5], (0..12).collect::<Vec<_>>()) {
                let target = 4096 + over;
                let mut p: Vec<Sym> = (0..64u32).map(|b| Sym::L(((b * 67 + 3) & 0xFF) as u8)).collect();
                let mut produced = 64;
                while produced + 273 <= target {
                    p.push(Sym::M(64, 273));
                    produced += 273;
                }
                while produced < target {
                    p.push(Sym::L((produced * 3) as u8));
                    produced += 1;
                }
                for d in [4097u32, 4098, 8192, 0xFFFF_FFFF] {
                    let mut q = p.clone();
                    q.push(Sym::M(d, 3));
                    items.push((q, 4096));
                    // header announces a smaller dictionary: clamp to 4096 must still reject 4097
                    let mut q = p.clone();
                    q.push(Sym::M(d, 3));
                    items.push((q, 1));
                }
            }
            // header dictionary sizes that are not a multiple of 16 / not a power of two: a copy just beyond them
            // (... and large ones that are not a whole number of MiB: 4 MiB + 1, 5 000 000, 12 345 678 in the thorough tier)
            for hd in tier.pick(vec![4097u32, 5000, 6145, (1 << 22) + 1, 5_000_000], vec![4097u32, 5000, 6145, (1 << 22) + 1, 5_000_000, 12_345_678]) {
                let target = hd as usize + 7;
                let mut p: Vec<Sym> = (0..64u32).map(|b| Sym::L(((b * 67 + 3) & 0xFF) as u8)).collect();
                let mut produced = 64;
                while produced + 273 <= target {
                    p.push(Sym::M(64, 273));
                    produced += 273;
                }
                while produced < target {
                    p.push(Sym::L((produced * 3) as u8));
                    produced += 1;
                }
                for over in if hd < (1 << 20) { vec![1u32, 2, 7, 8, 15, 16] } else { vec![1u32, 16, 4096, (1 << 20) - (hd % (1 << 20))] } {
                    let mut q = p.clone();
                    q.push(Sym::M(hd + over, 3));
                    items.push((q, hd));
                }
            }
            par_for(items.len() as u64, |i| {
                let (prog, hd) = &items[i as usize];
                let Some((payload, prefix_out, size)) = build_invalid(3, 0, 2, (*hd).max(4096) as u64, prog) else {
                    ctx.machinery_error(&format!("public-API invalid program is not 'valid prefix + 1 invalid': {}", prog_str(prog)));
                };
                ctx.eval(1);
                ctx.nontriv(1);
                ctx.states.fetch_add(1, Ordering::Relaxed);
                ctx.transitions.fetch_add(1, Ordering::Relaxed);
                for sz in [Some(size), None] {
                    let file = enc::lzma_file(3, 0, 2, *hd, sz, &payload);
                    let (v, out, consumed) = dec_plain(Fmt::Lzma, &Opts::default(), &file);
                    ctx.traces.fetch_add(1, Ordering::Relaxed);
                    if !(v.is_err() && prefix_out.starts_with(&out)) {
                        let case = Case::Dec { fmt: Fmt::Lzma, opts: Opts::default(), input: Hex(file), rd: Rd::default(), sk: Sk::default() };
                        ctx.violation(&case, &format!("{}-symbol program ending in [{}] (reference outside the window): Err, delivered bytes a prefix of the valid output", prog.len(), prog_str(&prog[prog.len().saturating_sub(2)..])), &obs_of(v, out, consumed), None);
                    }
                }
                // provided size with 5-byte header
                let mut f = enc::lzma_header(3, 0, 2, *hd, None);
                f.truncate(5);
                f.extend_from_slice(&payload);
                let opts = Opts { size: SizeOpt::Provided(Some(size)), ..Opts::default() };
                let (v, out, consumed) = dec_plain(Fmt::Lzma, &opts, &f);
                if !(v.is_err() && prefix_out.starts_with(&out)) {
                    let case = Case::Dec { fmt: Fmt::Lzma, opts, input: Hex(f), rd: Rd::default(), sk: Sk::default() };
                    ctx.violation(&case, "reference outside the window: Err", &obs_of(v, out, consumed), None);
                }
            });
            ctx.scope_done(name, items.len() as u64, t0, "produced+1 / produced+2 / dict+1 after the wrap / 2^32-1; header dict 1 (clamped) and 4096");
        }
    }

    // ---------------------------------------------------------------- E1: LZMA2 (accumulating window, dictionary resets)
    // ---------------------------------------------------------------- a second payload on the same raw decoder WITHOUT reset: the state and
    // the rep distances of the first payload are still there, the window is new and empty - a first symbol that refers
    // back (a literal in a matched-literal state, a short rep, a rep match, also at the end marker's distance 2^32) has
    // nothing to refer to and must be rejected, never decoded against bytes that are not there
    {
        let name = "E1/raw/second-payload-without-reset";
        if ctx.may_start(name) {
            let t0 = Instant::now();
            let firsts: Vec<(&str, Vec<Sym>)> = vec![
                ("ends with a match", vec![Sym::L(0x41), Sym::L(0x42), Sym::M(2, 5)]),
                ("ends with a short rep", vec![Sym::L(0x41), Sym::L(0x42), Sym::M(1, 2), Sym::L(0x43), Sym::S]),
                ("ends with a rep match", vec![Sym::L(0x41), Sym::L(0x42), Sym::M(2, 3), Sym::L(0x43), Sym::R(0, 4)]),
                ("ends with the end marker", vec![Sym::L(0x41), Sym::L(0x42), Sym::M(2, 3), Sym::E]),
                ("ends with literal, match, end marker", vec![Sym::L(0x41), Sym::M(1, 4), Sym::E]),
            ];
            let mut n = 0u64;
            for (lc, lp, pb) in [(3u32, 0u32, 2u32), (0, 0, 0)] {
                for (fname, first) in &firsts {
                    let marker = matches!(first.last(), Some(Sym::E));
                    let e1 = enc::encode(lc, lp, pb, 4096, first);
                    // ... and second payloads written the way a WRONG decoder would read them (plain literal instead of
                    // the matched literal that has no match byte; zero bytes for a copy from before the window), complete with
                    // an end marker: a correct decoder stops at the first symbol, a defective one sails through to Ok
                    if marker {
                        for (sname, second, plain, zeros) in [
                            ("a literal (coded as a plain literal), more literals, end marker", vec![Sym::L(0x51), Sym::L(0x52), Sym::E], true, false),
                            ("a short rep, a literal, end marker (a decoder that fabricates zero bytes accepts it)", vec![Sym::S, Sym::L(0x53), Sym::E], false, true),
                            ("a rep0 match, a literal, end marker (fabricated zeros)", vec![Sym::R(0, 4), Sym::L(0x54), Sym::E], false, true),
                            ("a literal coded as plain, a short rep on it, end marker", vec![Sym::L(0x55), Sym::S, Sym::E], true, true),
                        ] {
                            let mut m = enc::Model::new(lc, lp, pb).with_dict(4096);
                            let _ = enc::encode_with(&mut m, first);
                            m.reset_dict();
                            m.wrong_plain_literal_outside_window = plain;
                            m.wrong_zeros_outside_window = zeros;
                            let e2 = enc::encode_with(&mut m, &second);
                            let ops = vec![RawOp::Dec(Hex(e1.payload.clone())), RawOp::Dec(Hex(e2.payload.clone()))];
                            let case = Case::RawLzma { lc, lp, pb, dict: 4096, size: None, memlimit: None, ops };
                            let o = crate::cases::run_case(&case);
                            n += 1;
                            ctx.eval(1);
                            ctx.nontriv(1);
                            let ok = o.ops.len() == 2 && o.ops[0].v.is_ok() && o.ops[1].v.is_err() && o.out.0.is_empty();
                            if !ok {
                                ctx.violation(&case, &format!("raw decoder lc={} lp={} pb={}: first payload {} [{}]; second payload without reset: {}: the first reference lies before the (new, empty) window => Err and nothing delivered", lc, lp, pb, fname, prog_str(first), sname), &o, None);
                            }
                        }
                    }
                    // the second payload is encoded by a model that continues from the first one's state (so that its first
                    // symbol really is the symbol named), window emptied
                    for (sname, second) in [("a literal", vec![Sym::L(0x51), Sym::L(0x52)]), ("a short rep", vec![Sym::S]), ("a rep0 match", vec![Sym::R(0, 3)]), ("a rep1 match", vec![Sym::R(1, 2)])] {
                        let mut m = enc::Model::new(lc, lp, pb).with_dict(4096);
                        let _ = enc::encode_with(&mut m, first);
                        m.reset_dict();
                        let e2 = enc::encode_with(&mut m, &second);
                        let size1 = if marker { None } else { Some(e1.expect.len() as u64) };
                        let ops = vec![RawOp::Dec(Hex(e1.payload.clone())), RawOp::Dec(Hex(e2.payload.clone()))];
                        let case = Case::RawLzma { lc, lp, pb, dict: 4096, size: size1, memlimit: None, ops };
                        let o = crate::cases::run_case(&case);
                        n += 1;
                        ctx.eval(1);
                        ctx.nontriv(1);
                        // a literal right after a literal-ended first payload would be fine; all `firsts` end in a copy or marker
                        let ok = o.ops.len() == 2 && o.ops[0].v.is_ok() && o.ops[1].v.is_err() && o.out.0.is_empty();
                        if !ok {
                            ctx.violation(&case, &format!("raw decoder lc={} lp={} pb={}: first payload {} [{}]; second payload without reset starts with {}: the reference lies before the (new, empty) window => Err and nothing delivered", lc, lp, pb, fname, prog_str(first), sname), &o, None);
                        }
                    }
                }
            }
            ctx.scope_done(name, n, t0, "5 first payloads x 4 first symbols of the second payload x 2 settings");
        }
    }
    // ---------------------------------------------------------------- valid copies in the second and third lap of the window that end
    // exactly at its end (the output must not depend on what the earlier lap left in the cells that follow)
    {
        let name = "E1/public+raw/later-lap-copies-ending-at-the-window-end";
        if ctx.may_start(name) {
            use super::c01::{build, check_exact, Variant};
            let t0 = Instant::now();
            let mut items = Vec::new();
            for dict in [4096u32, 64, 16] {
                for lap in 1..=3usize {
                    for (l, d) in [(16usize, 16u32), (16, 60), (40, 300), (273, 273), (2, 1), (9, 3)] {
                        if d > dict || (d as usize) < l && l >= 16 && false {
                            continue;
                        }
                        for dj in [0usize, 1] {
                            items.push((dict, lap, l, d, dj));
                        }
                    }
                }
            }
            par_for(items.len() as u64, |i| {
                let (dict, lap, l, d, dj) = items[i as usize];
                let target = dict as usize * lap + dict as usize - l - dj; // the copy ends at (dj = 0) / one before the end of lap `lap+1`
                let mut prog: Vec<Sym> = Vec::new();
                let mut produced = 0usize;
                let mut k = 0u32;
                while produced < target {
                    let room = target - produced;
                    if produced >= 8 && room >= 2 && k % 4 != 3 {
                        let len = room.min(2 + (k as usize * 7) % 60);
                        prog.push(Sym::M(1 + (k * 5) % (produced.min(dict as usize) as u32).min(7), len as u32));
                        produced += len;
                    } else {
                        prog.push(Sym::L((k * 29 + produced as u32 * 3 + 1) as u8));
                        produced += 1;
                    }
                    k += 1;
                }
                prog.push(Sym::M(d, l as u32));
                prog.extend([Sym::L(0xEE), Sym::M(1, 5), Sym::L(0x78), Sym::M(2, 9), Sym::M(dict.min(15), 12), Sym::L(0x31), Sym::M(dict, 3)]);
                for var in [Variant::RawKnown { dict }, Variant::RawMarker { dict }] {
                    if let Some((b, _)) = build(0, 0, 0, &prog, var, dict as u64) {
                        ctx.eval(1);
                        ctx.nontriv(1);
                        check_exact(&ctx, &b, &format!("{} bytes, then M({},{}) ending {} the end of lap {} of a {}-byte window, then short- and long-distance copies {:?}", target, d, l, if dj == 0 { "exactly at" } else { "one byte before" }, lap + 1, dict, var));
                    }
                }
            });
            ctx.scope_done(name, items.len() as u64, t0, "dictionaries 16 / 64 / 4096, laps 2..4");
        }
    }
    // ---------------------------------------------------------------- references under a memory limit below the dictionary size:
    // whatever the limit does, a copy is never served from the wrong place - the outcome is an error or the exact data
    {
        let name = "E1/public+raw/references-under-a-memory-limit";
        if ctx.may_start(name) {
            let t0 = Instant::now();
            let mut items = Vec::new();
            for lits in [40usize, 100, 300] {
                for m in [1u64, 16, 39, 64, 99, 128, 299, 1000] {
                    for d in [1u32, 2, 30, 38, 39, 40, 65, 70, 99, 100, 129, 250, 299, 300] {
                        for l in [2u32, 4, 40, 273] {
                            if (d as usize) <= lits {
                                items.push((lits, m, d, l));
                            }
                        }
                    }
                }
            }
            par_for(items.len() as u64, |i| {
                let (lits, m, d, l) = items[i as usize];
                let mut prog: Vec<Sym> = (0..lits as u32).map(|b| Sym::L(((b * 7 + b / 9 + 1) & 0xFF) as u8)).collect();
                prog.push(Sym::M(d, l));
                prog.push(Sym::L(0x5A));
                prog.push(Sym::S);
                let e = enc::encode(3, 0, 2, 4096, &prog);
                ctx.eval(2);
                ctx.nontriv(2);
                let file = enc::lzma_file(3, 0, 2, 4096, Some(e.expect.len() as u64), &e.payload);
                let case = Case::Dec { fmt: Fmt::Lzma, opts: Opts { memlimit: Some(m), ..Opts::default() }, input: Hex(file), rd: Rd::default(), sk: Sk::default() };
                let o = crate::cases::run_case(&case);
                if !(o.v.is_err() || (o.v.is_ok() && o.out.0 == e.expect)) {
                    ctx.violation(&case, &format!("{} literals, M({},{}), literal, short rep on a 4096-byte dictionary with memory limit {}: an error, or exactly {} ({} bytes)", lits, d, l, m, brief_bytes(&e.expect), e.expect.len()), &o, None);
                    return;
                }
                let case = Case::RawLzma { lc: 3, lp: 0, pb: 2, dict: 4096, size: Some(e.expect.len() as u64), memlimit: Some(m), ops: vec![RawOp::Dec(Hex(e.payload.clone()))] };
                let o = crate::cases::run_case(&case);
                let r = o.ops.first();
                if !r.map_or(false, |r| r.v.is_err() || (r.v.is_ok() && o.out.0 == e.expect)) {
                    ctx.violation(&case, &format!("raw decoder: {} literals, M({},{}), literal, short rep on a 4096-byte dictionary with memory limit {}: an error, or exactly the data ({} bytes)", lits, d, l, m, e.expect.len()), &o, None);
                }
            });
            ctx.scope_done(name, items.len() as u64, t0, "copies at distances below/at/above the limit, limit below the dictionary size");
        }
    }
    {
        let name = "E1/lzma2";
        if ctx.may_start(name) {
            let t0 = Instant::now();
            let mut seqs: Vec<(String, Vec<Chunk>)> = Vec::new();
            let base = Chunk::C { class: 3, props: (3, 0, 2), prog: vec![Sym::L(1), Sym::L(2), Sym::L(3), Sym::L(4), Sym::L(5), Sym::L(6), Sym::M(5, 3)] };
            // the last chunk's last symbol is the invalid one
            for (label, tail) in [
                ("match beyond the start of the stream", vec![Chunk::C { class: 3, props: (3, 0, 2), prog: vec![Sym::L(1), Sym::M(2, 2)] }]),
                ("short rep at position 0", vec![Chunk::C { class: 3, props: (0, 0, 0), prog: vec![Sym::S] }]),
                ("rep2 at position 0", vec![Chunk::C { class: 3, props: (0, 0, 0), prog: vec![Sym::R(2, 4)] }]),
                ("match reaching before a mid-stream dictionary reset", vec![base.clone(), Chunk::C { class: 3, props: (3, 0, 2), prog: vec![Sym::L(7), Sym::L(8), Sym::L(9), Sym::M(4, 2)] }]),
                ("match reaching before an uncompressed chunk with dictionary reset", vec![base.clone(), Chunk::U { reset: true, data: vec![7, 8] }, Chunk::C { class: 2, props: (3, 0, 2), prog: vec![Sym::M(3, 2)] }]),
                ("short rep with rep0 beyond a freshly reset dictionary", vec![base.clone(), Chunk::U { reset: true, data: vec![7, 8] }, Chunk::C { class: 0, props: (0, 0, 0), prog: vec![Sym::S] }]),
                ("rep0 match with rep0 beyond a freshly reset dictionary", vec![base.clone(), Chunk::U { reset: true, data: vec![7, 8, 9] }, Chunk::C { class: 0, props: (0, 0, 0), prog: vec![Sym::R(0, 2)] }]),
                ("matched literal with rep0 beyond a freshly reset dictionary", vec![base.clone(), Chunk::U { reset: true, data: vec![7, 8] }, Chunk::C { class: 0, props: (0, 0, 0), prog: vec![Sym::L(0x33)] }]),
                ("distance 2^32-1 in LZMA2", vec![base.clone(), Chunk::C { class: 0, props: (0, 0, 0), prog: vec![Sym::L(1), Sym::M(0xFFFF_FFFF, 2)] }]),
                ("distance produced+1 across compressed and uncompressed chunks", vec![base.clone(), Chunk::U { reset: false, data: vec![7, 8] }, Chunk::C { class: 1, props: (0, 0, 0), prog: vec![Sym::L(3), Sym::M(13, 2)] }]),
            ] {
                seqs.push((label.to_string(), tail));
            }
            let n = seqs.len() as u64;
            par_for(n, |i| {
                let (label, cs) = &seqs[i as usize];
                let w = lzma2::write(cs);
                let ill = w.ill.clone().unwrap_or_default();
                if !ill.contains("invalid reference") && !ill.contains("properties needed") {
                    ctx.machinery_error(&format!("C09 LZMA2 case '{}' is not an invalid-reference case: {:?}", label, w.ill));
                }
                // declared unpacked size of the last chunk: as if the copy were valid
                let mut bytes = w.bytes.clone();
                let last = w.layout.last().unwrap();
                let l = match cs.last() {
                    Some(Chunk::C { prog, .. }) => match prog.last().unwrap() {
                        Sym::M(_, l) | Sym::R(_, l) => *l as usize,
                        _ => 1,
                    },
                    _ => 1,
                };
                let declared = last.unpacked + l - 1;
                bytes[last.control_off] = (bytes[last.control_off] & 0xE0) | ((declared >> 16) & 0x1F) as u8;
                bytes[last.unpacked_off] = (declared >> 8) as u8;
                bytes[last.unpacked_off + 1] = declared as u8;
                ctx.eval(1);
                ctx.nontriv(1);
                ctx.states.fetch_add(cs.len() as u64, Ordering::Relaxed);
                ctx.transitions.fetch_add(cs.len() as u64, Ordering::Relaxed);
                let (v, out, consumed) = dec_plain(Fmt::Lzma2, &Opts::default(), &bytes);
                ctx.traces.fetch_add(1, Ordering::Relaxed);
                if !(v.is_err() && w.expect.starts_with(&out)) {
                    let case = Case::Dec { fmt: Fmt::Lzma2, opts: Opts::default(), input: Hex(bytes.clone()), rd: Rd::default(), sk: Sk::default() };
                    ctx.violation(&case, &format!("LZMA2 [{}] ({}): Err, delivered bytes a prefix of {}", chunks_str(cs), label, brief_bytes(&w.expect)), &obs_of(v, out, consumed), None);
                }
                ctx.sample(json!({"scope": name, "case": label, "chunks": chunks_str(cs)}));
            });
            ctx.scope_done(name, n, t0, "invalid references relative to dictionary resets, incl. matched-literal read");
        }
    }
    ctx.finish()
}

//! C18 — unsupported XZ features are refused explicitly (E5 over small finite feature domains).
use super::c02::obs_of;
use super::c03::payload;
use crate::cases::{dec_plain, Case, Fmt, Hex, Opts, Rd, Sk};
use crate::common::{brief_bytes, Ctx, Tier};
use crate::explore::par_for;
use crate::refmodel::xz::{self, mbi, Block, XzFile};
use serde_json::json;
use std::sync::atomic::Ordering;
use std::time::Instant;

/// Chooses msg[pos..pos+4] so that crc32(msg) == target (CRC32 is affine in the message bits: 32 probes + elimination).
fn forge_crc32(msg: &mut [u8], pos: usize, target: u32) -> bool {
    use crate::refmodel::crc::crc32;
    let base = crc32(msg);
    let mut rows: Vec<(u32, u32)> = Vec::new(); // (column vector, which free bit)
    for j in 0..32usize {
        msg[pos + j / 8] ^= 1 << (j % 8);
        rows.push((crc32(msg) ^ base, 1u32 << j));
        msg[pos + j / 8] ^= 1 << (j % 8);
    }
    // Gaussian elimination on the 32 column vectors, tracking combinations of free bits
    let mut want = target ^ base;
    let mut pick = 0u32;
    let mut basis: Vec<(u32, u32)> = Vec::new();
    for (mut v, mut c) in rows {
        for &(bv, bc) in &basis {
            if v & (1 << (31 - bv.leading_zeros())) != 0 {
                v ^= bv;
                c ^= bc;
            }
        }
        if v != 0 {
            basis.push((v, c));
            basis.sort_by(|a, b| b.0.cmp(&a.0));
        }
    }
    for &(bv, bc) in &basis {
        if want & (1 << (31 - bv.leading_zeros())) != 0 {
            want ^= bv;
            pick ^= bc;
        }
    }
    if want != 0 {
        return false;
    }
    for j in 0..32usize {
        if pick & (1 << j) != 0 {
            msg[pos + j / 8] ^= 1 << (j % 8);
        }
    }
    crc32(msg) == target
}

pub fn run(tier: Tier) -> i32 {
    let ctx = Ctx::new("C18", "exploration", tier);
    ctx.set_rule("E5: 6 valid base files (1-3 blocks with content, 1-2 empty blocks, no block), re-encoded (all CRCs correct) with each unsupported feature: all 16 check IDs consistently in header and footer with a check field of the specified size (real SHA-256 for 0x0A) - accepted iff ID in {0,1,4}; each high bit of the check byte and each bit of the first flags byte; each reserved block-flag bit; filter IDs {delta, BCJ x86..RISC-V, LZMA1-like, 0x20, 0x22, 2^62} as sole filter and ahead of LZMA2 with their correct property sizes; two concatenated streams; stream padding 4..16. Oracle: Err (never Ok). distinct_nontrivial = files carrying exactly one unsupported feature.");
    let t0 = Instant::now();
    let mut bases: Vec<(String, XzFile)> = Vec::new();
    for (nb, sizes) in [(1usize, false), (2, true), (3, false)] {
        let blocks: Vec<Block> = (0..nb)
            .map(|b| {
                let (p, plain) = payload(b % 3, b % 4, 3 * b + nb);
                Block { payload: p, plain, with_csize: sizes, with_usize: sizes, ..Default::default() }
            })
            .collect();
        bases.push((format!("{} block(s), size fields {}", nb, sizes), XzFile { check_id: 1, blocks, ..Default::default() }));
    }
    // blocks without content, and no block at all: whether a feature is refused must not depend on there being data
    for nb in [1usize, 2, 0] {
        let blocks: Vec<Block> = (0..nb)
            .map(|b| {
                let (p, plain) = super::c03::stored_payload(0, b);
                Block { payload: p, plain, with_csize: b == 1, with_usize: b == 1, ..Default::default() }
            })
            .collect();
        bases.push((format!("{} empty block(s)", nb), XzFile { check_id: 1, blocks, ..Default::default() }));
    }
    let mut items: Vec<(String, Vec<u8>, bool, usize)> = Vec::new(); // (label, bytes, must_be_ok, end of the first stream if something follows it)
    for (bn, f) in &bases {
        // all 16 check IDs
        for id in 0..16u8 {
            let mut g = f.clone();
            g.check_id = id;
            items.push((format!("[{}] check ID {:#x} in header and footer, {}-byte check fields", bn, id, xz::check_size(id)), xz::build(&g).0, [0u8, 1, 4].contains(&id), 0));
        }
        // high bits of the check byte / bits of the first flags byte (header and footer consistently)
        for bit in 4..8 {
            let mut g = f.clone();
            g.o_hdr_flags = Some([0, f.check_id | (1 << bit)]);
            g.o_ftr_flags = Some([0, f.check_id | (1 << bit)]);
            items.push((format!("[{}] stream flags second byte bit {} set (header and footer)", bn, bit), xz::build(&g).0, false, 0));
        }
        for bit in 0..8 {
            let mut g = f.clone();
            g.o_hdr_flags = Some([1 << bit, f.check_id]);
            g.o_ftr_flags = Some([1 << bit, f.check_id]);
            items.push((format!("[{}] stream flags first byte bit {} set (header and footer)", bn, bit), xz::build(&g).0, false, 0));
        }
        // reserved block flag bits
        for bit in 2..6 {
            for bi in 0..f.blocks.len() {
                let mut g = f.clone();
                let fl = (if g.blocks[bi].with_csize { 0x40 } else { 0 }) | (if g.blocks[bi].with_usize { 0x80 } else { 0 });
                g.blocks[bi].o_flags = Some(fl | (1 << bit));
                items.push((format!("[{}] block {} reserved flag bit {} set", bn, bi, bit), xz::build(&g).0, false, 0));
                // ... in block headers of every size class (12 .. 1024 bytes: legal null padding)
                for pad4 in [1usize, 13, 14, 15, 16, 17, 60, 252] {
                    let mut h = g.clone();
                    h.blocks[bi].extra_pad4 = pad4;
                    items.push((format!("[{}] block {} reserved flag bit {} set, block header {} bytes longer than needed", bn, bi, bit, pad4 * 4), xz::build(&h).0, false, 0));
                }
            }
        }
        // filters
        let lz = (mbi(0x21), mbi(1), vec![0x16u8]);
        // IDs of five and more multibyte bytes whose 7-bit groups fold onto 0x21 when a decoder shifts, adds or xors the
        // high groups into the wrong place
        let mut folds: Vec<u64> = Vec::new();
        for sh in [28u32, 35, 42, 49, 56] {
            for h in [1u64, 0x20, 0x21, 0x42] {
                for low in [0x21 ^ h, 0x21u64.wrapping_sub(h) & 0x7F, 0x21] {
                    folds.push((h << sh) | low);
                }
            }
        }
        folds.sort_unstable();
        folds.dedup();
        folds.retain(|v| *v != 0x21 && *v < (1 << 63));
        for id in &folds {
            for bi in 0..f.blocks.len().min(1) {
                let mut g = f.clone();
                g.blocks[bi].o_filters = Some(vec![(mbi(*id), mbi(1), vec![0x16u8])]);
                items.push((format!("[{}] block {} filter ID {:#x} (wide multibyte integer that folds onto 0x21), LZMA2-style properties", bn, bi, id), xz::build(&g).0, false, 0));
            }
        }
        let others: Vec<(u64, Vec<u8>)> = vec![
            (0x03, vec![0]),             // delta, distance 1
            (0x04, vec![]),              // x86 BCJ
            (0x05, vec![]),              // PowerPC
            (0x06, vec![]),              // IA64
            (0x07, vec![]),              // ARM
            (0x08, vec![]),              // ARM-Thumb
            (0x09, vec![]),              // SPARC
            (0x0A, vec![]),              // ARM64
            (0x0B, vec![]),              // RISC-V
            (0x04, vec![0, 0, 0, 0]),    // x86 BCJ with start offset
            (0x00, vec![]),              // unassigned; its record is two null bytes, like header padding
            (0x01, vec![]),
            (0x02, vec![]),
            (0x20, vec![0x16]),
            (0x22, vec![0x16]),
            (1 << 62, vec![]),
            (0x4000_0000_0000_0001, vec![0x16]),
            // IDs that alias LZMA2 (0x21) when truncated to 8 / 16 / 32 bits
            (0x121, vec![0x16]),
            (0x2021, vec![0x16]),
            (0x1_0021, vec![0x16]),
            (0x1_0000_0021, vec![0x16]),
            (0x4000_0000_0000_0021, vec![0x16]),
        ];
        for (id, props) in &others {
            for bi in 0..f.blocks.len().min(2) {
                let fspec = (mbi(*id), mbi(props.len() as u64), props.clone());
                let mut g = f.clone();
                g.blocks[bi].o_filters = Some(vec![fspec.clone()]);
                items.push((format!("[{}] block {} sole filter {:#x}", bn, bi, id), xz::build(&g).0, false, 0));
                let mut g = f.clone();
                g.blocks[bi].o_filters = Some(vec![fspec.clone(), lz.clone()]);
                items.push((format!("[{}] block {} filter chain {:#x} -> LZMA2", bn, bi, id), xz::build(&g).0, false, 0));
                // ... and listed AFTER LZMA2 (never valid: LZMA2 must be last - and never supported)
                let mut g = f.clone();
                g.blocks[bi].o_filters = Some(vec![lz.clone(), (mbi(*id), mbi(props.len() as u64), props.clone())]);
                items.push((format!("[{}] block {} filter chain LZMA2 -> {:#x}", bn, bi, id), xz::build(&g).0, false, 0));
            }
        }
        // two LZMA2 filters in a chain is not something lzma-rs refuses by table (it decodes twice): not submitted.
        // concatenated streams and stream padding
        let (one, _) = xz::build(f);
        for (on, other) in bases.iter().enumerate() {
            let mut two = one.clone();
            two.extend_from_slice(&xz::build(&other.1).0);
            items.push((format!("[{}] followed by a second stream (base {})", bn, on), two, false, one.len()));
        }
        let mut empty2 = one.clone();
        empty2.extend_from_slice(&xz::build(&XzFile { check_id: 1, ..Default::default() }).0);
        items.push((format!("[{}] followed by an empty stream", bn), empty2, false, one.len()));
        for pad in [4usize, 8, 12, 16] {
            let mut p = one.clone();
            p.extend(std::iter::repeat(0u8).take(pad));
            items.push((format!("[{}] + {} bytes of stream padding", bn, pad), p.clone(), false, one.len()));
            p.extend_from_slice(&one);
            items.push((format!("[{}] + {} bytes of stream padding + second stream", bn, pad), p, false, one.len()));
        }
    }
    // ---- a later block whose header has the same size AND the same CRC32 as the previous block's header but lists an
    // unsupported filter (x86 BCJ with a start offset chosen to make the CRC32s collide): a well-formed file
    {
        use crate::refmodel::crc::crc32;
        let (p0, plain0) = super::c03::stored_payload(5, 1);
        let (p1, plain1) = super::c03::stored_payload(6, 2); // (no 0xE8 / 0xE9 bytes: the BCJ filter would be the identity)
        let b0 = Block { payload: p0, plain: plain0, extra_pad4: 1, ..Default::default() };
        let mut hdr1: Vec<u8> = vec![3, 0x01, 0x04, 0x04, 0, 0, 0, 0, 0x21, 0x01, 0x16, 0];
        let hdr0: Vec<u8> = vec![3, 0x00, 0x21, 0x01, 0x16, 0, 0, 0, 0, 0, 0, 0];
        if !plain1.iter().any(|b| *b == 0xE8 || *b == 0xE9) && forge_crc32(&mut hdr1, 4, crc32(&hdr0)) {
            let b1 = Block { payload: p1, plain: plain1, o_filters: Some(vec![(mbi(0x04), mbi(4), hdr1[4..8].to_vec()), (mbi(0x21), mbi(1), vec![0x16u8])]), ..Default::default() };
            for blocks in [vec![b0.clone(), b1.clone()], vec![b0.clone(), b0.clone(), b1.clone()]] {
                let f = XzFile { check_id: 1, blocks, ..Default::default() };
                let (bytes, spans) = xz::build(&f);
                // the construction is only meaningful if the two header CRC32 fields really are equal
                let crcs: Vec<&[u8]> = spans.iter().filter(|s| s.0.ends_with(".header_crc")).map(|s| &bytes[s.1..s.2]).collect();
                if crcs.len() >= 2 && crcs[0] == crcs[crcs.len() - 1] {
                    items.push((format!("{} blocks, the last one with an x86 BCJ filter ahead of LZMA2 and a header of the same size and CRC32 ({:02x?}) as the first block's", f.blocks.len(), crcs[0]), bytes, false, 0));
                }
            }
        }
    }
    // ---- thousands of blocks, then something after the stream (a decoder may take another path for a long index)
    for nb in tier.pick(vec![5000usize], vec![4095usize, 4096, 5000, 70000]) {
        let blocks: Vec<Block> = (0..nb)
            .map(|b| {
                let (p, plain) = super::c03::stored_payload(b % 2, b);
                Block { payload: p, plain, ..Default::default() }
            })
            .collect();
        let (one, _) = xz::build(&XzFile { check_id: 1, blocks, ..Default::default() });
        let mut padded = one.clone();
        padded.extend_from_slice(&[0, 0, 0, 0]);
        items.push((format!("{} blocks + 4 bytes of stream padding", nb), padded, false, usize::MAX));
        let mut two = one.clone();
        two.extend_from_slice(&xz::build(&XzFile { check_id: 1, ..Default::default() }).0);
        items.push((format!("{} blocks followed by an empty stream", nb), two, false, usize::MAX));
    }
    let n = items.len() as u64;
    par_for(n, |i| {
        let (label, bytes, must_ok, split) = &items[i as usize];
        ctx.eval(1);
        let (v, out, consumed) = dec_plain(Fmt::Xz, &Opts::default(), bytes);
        ctx.traces.fetch_add(1, Ordering::Relaxed);
        if *must_ok {
            // supported IDs: sanity that the re-encoding itself is sound (otherwise the refusals prove nothing)
            if !v.is_ok() {
                let case = Case::Dec { fmt: Fmt::Xz, opts: Opts::default(), input: Hex(bytes.clone()), rd: Rd::default(), sk: Sk::default() };
                ctx.violation(&case, &format!("{}: supported => Ok", label), &obs_of(v, out, consumed), None);
            }
            return;
        }
        ctx.nontriv(1);
        if !v.is_err() {
            let case = Case::Dec { fmt: Fmt::Xz, opts: Opts::default(), input: Hex(bytes.clone()), rd: Rd::default(), sk: Sk::default() };
            ctx.violation(&case, &format!("{}: outside the supported subset => Err (never a partial decode reported as success)", label), &obs_of(v, out, consumed), None);
        }
        // the refusal must not depend on how the reader presents the data: byte-wise, small buffers, and - where
        // something follows the first stream - every BufReader capacity and a refill boundary exactly at / around its end
        let mut rds: Vec<Rd> = vec![Rd { period: 1, ..Rd::default() }, Rd { bufreader: 1, ..Rd::default() }, Rd { bufreader: 3, ..Rd::default() }];
        if *split == usize::MAX {
            rds.push(Rd { bufreader: 8192, ..Rd::default() });
            rds.push(Rd { period: 4096, ..Rd::default() });
        } else if *split > 0 {
            for c in 1..=(*split + 2) {
                rds.push(Rd { bufreader: c, ..Rd::default() });
            }
            for d in [-2i64, -1, 0, 1, 2, 4] {
                let c = (*split as i64 + d) as usize;
                if c > 0 && c < bytes.len() {
                    rds.push(Rd { cuts: vec![c], ..Rd::default() });
                }
            }
            rds.push(Rd { period: *split, ..Rd::default() });
        }
        if *split > 0 && *split != usize::MAX {
            // a hiccup of the source (Other / Interrupted / WouldBlock / TimedOut, once, at any call) may be retried or reported,
            // but it cannot turn a file that must be refused into a success
            let probe = crate::cases::run_case(&Case::Dec { fmt: Fmt::Xz, opts: Opts::default(), input: Hex(bytes.clone()), rd: Rd { cuts: vec![usize::MAX], ..Rd::default() }, sk: Sk::default() });
            for k in 0..probe.reads {
                for kind in 0..4u8 {
                    rds.push(Rd { cuts: vec![usize::MAX], fail_at: Some(k), fail_kind: kind, ..Rd::default() });
                }
            }
        }
        for rd in rds {
            let case = Case::Dec { fmt: Fmt::Xz, opts: Opts::default(), input: Hex(bytes.clone()), rd, sk: Sk::default() };
            let o = crate::cases::run_case(&case);
            ctx.eval(1);
            ctx.nontriv(1);
            ctx.traces.fetch_add(1, Ordering::Relaxed);
            if !o.v.is_err() {
                ctx.violation(&case, &format!("{}: outside the supported subset => Err, however the reader presents the data", label), &o, None);
                break;
            }
        }
        if i % 41 == 0 {
            ctx.sample(json!({"file": label, "bytes": brief_bytes(bytes)}));
        }
    });
    let _ = tier;
    ctx.scope_done("unsupported-feature-files", n, t0, "");
    ctx.finish()
}

//! Shared machinery: tiers, evidence accumulation, violation reporting with replay
//! artefacts, known-findings handling, counting allocator, watchdog, 128-bit state hash.
use crate::cases::{run_case, Case, Obs};
use serde::{Deserialize, Serialize};
use serde_json::{json, Value};
use std::cell::Cell;
use std::collections::BTreeMap;
use std::sync::atomic::{AtomicBool, AtomicU64, AtomicUsize, Ordering};
use std::sync::{Arc, Mutex, OnceLock};
use std::time::{Duration, Instant};

#[derive(Clone, Copy, Debug, PartialEq, Eq)]
pub enum Tier {
    Quick,
    Thorough,
}
impl Tier {
    pub fn name(&self) -> &'static str {
        match self {
            Tier::Quick => "quick",
            Tier::Thorough => "thorough",
        }
    }
    pub fn pick<T>(&self, q: T, t: T) -> T {
        match self {
            Tier::Quick => q,
            Tier::Thorough => t,
        }
    }
}

// ---------------------------------------------------------------------------------------------
// counting allocator (per-thread live bytes and peak)
// ---------------------------------------------------------------------------------------------
pub struct CountingAlloc;
thread_local! {
    static CUR: Cell<isize> = const { Cell::new(0) };
    static PEAK: Cell<isize> = const { Cell::new(0) };
    static BYPASS: Cell<bool> = const { Cell::new(false) };
}
/// a single request above this is reported at once (instead of letting the process abort)
const HARD_SINGLE: usize = 6 << 30;
static HARD_TRIPPED: AtomicBool = AtomicBool::new(false);

unsafe impl std::alloc::GlobalAlloc for CountingAlloc {
    unsafe fn alloc(&self, l: std::alloc::Layout) -> *mut u8 {
        if l.size() >= HARD_SINGLE {
            hard_alloc_violation(l.size());
        }
        let p = std::alloc::System.alloc(l);
        if !p.is_null() {
            track(l.size() as isize);
        }
        p
    }
    unsafe fn alloc_zeroed(&self, l: std::alloc::Layout) -> *mut u8 {
        if l.size() >= HARD_SINGLE {
            hard_alloc_violation(l.size());
        }
        let p = std::alloc::System.alloc_zeroed(l);
        if !p.is_null() {
            track(l.size() as isize);
        }
        p
    }
    unsafe fn dealloc(&self, p: *mut u8, l: std::alloc::Layout) {
        std::alloc::System.dealloc(p, l);
        track(-(l.size() as isize));
    }
    unsafe fn realloc(&self, p: *mut u8, l: std::alloc::Layout, n: usize) -> *mut u8 {
        if n >= HARD_SINGLE {
            hard_alloc_violation(n);
        }
        let q = std::alloc::System.realloc(p, l, n);
        if !q.is_null() {
            track(n as isize - l.size() as isize);
        }
        q
    }
}
#[inline]
fn track(d: isize) {
    let _ = CUR.try_with(|c| {
        let v = c.get() + d;
        c.set(v);
        if d > 0 {
            let _ = PEAK.try_with(|p| {
                if v > p.get() {
                    p.set(v)
                }
            });
        }
    });
}
/// Start a measurement window on this thread: returns the baseline.
pub fn heap_mark() -> isize {
    let cur = CUR.with(|c| c.get());
    PEAK.with(|p| p.set(cur));
    cur
}
/// Peak live bytes above the baseline since `heap_mark`.
pub fn heap_peak_since(base: isize) -> usize {
    let p = PEAK.with(|p| p.get());
    (p - base).max(0) as usize
}
fn hard_alloc_violation(n: usize) {
    if BYPASS.with(|b| b.replace(true)) {
        return;
    }
    if HARD_TRIPPED.swap(true, Ordering::SeqCst) {
        loop {
            std::thread::sleep(Duration::from_secs(1));
        }
    }
    let case = current_case_of_this_thread();
    let prop = PROP.get().cloned().unwrap_or_else(|| "C07".into());
    let path = match case {
        Some(c) => write_replay(&prop, &c, &format!("single allocation request of {} bytes", n), &Value::Null),
        None => "<no case registered>".into(),
    };
    println!("VIOLATION property={} replay={}", prop, path);
    println!("  detail: the code under test requested a single allocation of {} bytes", n);
    std::process::exit(1);
}

// ---------------------------------------------------------------------------------------------
// watchdog: per-thread slot with the case being executed
// ---------------------------------------------------------------------------------------------
pub struct Slot {
    started_ms: AtomicU64, // 0 = idle
    case: Mutex<Option<Case>>,
    /// set instead of `case` while a graph explorer has a Stream call in flight
    stream: Mutex<Option<Arc<StreamLog>>>,
}
/// Op list of one explored Stream object (see cases::StreamH::new_logged).
pub struct StreamLog {
    pub opts: crate::cases::Opts,
    pub sk: crate::cases::Sk,
    pub ops: Mutex<Vec<crate::cases::SOp>>,
}
static SLOTS: Mutex<Vec<Arc<Slot>>> = Mutex::new(Vec::new());
static T0: OnceLock<Instant> = OnceLock::new();
pub static PROP: OnceLock<String> = OnceLock::new();
thread_local! {
    static MY_SLOT: Arc<Slot> = {
        let s = Arc::new(Slot { started_ms: AtomicU64::new(0), case: Mutex::new(None), stream: Mutex::new(None) });
        SLOTS.lock().unwrap().push(s.clone());
        s
    };
}
fn now_ms() -> u64 {
    T0.get_or_init(Instant::now).elapsed().as_millis() as u64 + 1
}
pub fn slot_enter_stream(l: &Arc<StreamLog>) {
    MY_SLOT.with(|s| {
        *s.stream.lock().unwrap() = Some(l.clone());
        s.started_ms.store(now_ms(), Ordering::SeqCst);
    });
}
pub fn slot_enter(c: &Case) {
    MY_SLOT.with(|s| {
        *s.stream.lock().unwrap() = None;
        *s.case.lock().unwrap() = Some(c.clone());
        s.started_ms.store(now_ms(), Ordering::SeqCst);
    });
}
pub fn slot_leave() {
    MY_SLOT.with(|s| {
        s.started_ms.store(0, Ordering::SeqCst);
    });
}
fn current_case_of_this_thread() -> Option<Case> {
    MY_SLOT.try_with(|s| s.case.try_lock().ok().and_then(|g| g.clone())).ok().flatten()
}
pub const HANG_LIMIT_MS: u64 = 60_000;
pub fn start_watchdog() {
    let _ = T0.get_or_init(Instant::now);
    std::thread::spawn(|| loop {
        std::thread::sleep(Duration::from_millis(500));
        let slots = SLOTS.lock().unwrap().clone();
        for s in slots {
            let st = s.started_ms.load(Ordering::SeqCst);
            if st != 0 && now_ms().saturating_sub(st) > HANG_LIMIT_MS {
                let prop = PROP.get().cloned().unwrap_or_else(|| "C07".into());
                let c = match s.stream.lock().unwrap().clone() {
                    Some(l) => Some(Case::Stream { opts: l.opts, sk: l.sk.clone(), ops: l.ops.lock().unwrap().clone() }),
                    None => s.case.lock().unwrap().clone(),
                };
                let path = match c {
                    Some(c) => write_replay(&prop, &c, &format!("terminates (watchdog {} ms)", HANG_LIMIT_MS), &Value::Null),
                    None => "<none>".into(),
                };
                println!("VIOLATION property={} replay={}", prop, path);
                println!("  detail: case did not terminate within {} ms", HANG_LIMIT_MS);
                std::process::exit(1);
            }
        }
    });
}

// ---------------------------------------------------------------------------------------------
// 128-bit hasher for state fingerprints
// ---------------------------------------------------------------------------------------------
#[derive(Clone)]
pub struct H128 {
    a: u64,
    b: u64,
    n: u64,
}
impl Default for H128 {
    fn default() -> Self {
        Self::new()
    }
}
impl H128 {
    pub fn new() -> Self {
        H128 { a: 0x9E37_79B9_7F4A_7C15, b: 0xD6E8_FEB8_6659_FD93, n: 0 }
    }
    #[inline]
    fn word(&mut self, w: u64) {
        self.n = self.n.wrapping_add(1);
        self.a = (self.a ^ w).wrapping_mul(0xFF51_AFD7_ED55_8CCD);
        self.a ^= self.a >> 29;
        self.b = (self.b.rotate_left(23) ^ w ^ self.n).wrapping_mul(0xC4CE_B9FE_1A85_EC53);
        self.b ^= self.b >> 31;
    }
    pub fn finish128(&self) -> u128 {
        let mut a = self.a ^ self.n.wrapping_mul(0x9E37_79B9_7F4A_7C15);
        let mut b = self.b ^ self.n;
        a = (a ^ (a >> 33)).wrapping_mul(0xFF51_AFD7_ED55_8CCD);
        a ^= a >> 33;
        b = (b ^ (b >> 33)).wrapping_mul(0xC4CE_B9FE_1A85_EC53);
        b ^= b >> 33;
        ((a as u128) << 64) | b as u128
    }
}
impl std::hash::Hasher for H128 {
    fn finish(&self) -> u64 {
        self.finish128() as u64
    }
    fn write(&mut self, bytes: &[u8]) {
        let mut ch = bytes.chunks_exact(8);
        for c in &mut ch {
            self.word(u64::from_le_bytes([c[0], c[1], c[2], c[3], c[4], c[5], c[6], c[7]]));
        }
        let r = ch.remainder();
        if !r.is_empty() {
            let mut t = [0u8; 8];
            t[..r.len()].copy_from_slice(r);
            self.word(u64::from_le_bytes(t) ^ ((r.len() as u64) << 56));
        }
        self.word(bytes.len() as u64 ^ 0xA5A5_5A5A_0000_0000);
    }
    fn write_u8(&mut self, i: u8) {
        self.word(i as u64 | 0x0100_0000_0000_0000)
    }
    fn write_u16(&mut self, i: u16) {
        self.word(i as u64 | 0x0200_0000_0000_0000)
    }
    fn write_u32(&mut self, i: u32) {
        self.word(i as u64 | 0x0400_0000_0000_0000)
    }
    fn write_u64(&mut self, i: u64) {
        self.word(i);
        self.word(0x0800_0000_0000_0000)
    }
    fn write_usize(&mut self, i: usize) {
        self.write_u64(i as u64)
    }
}

// ---------------------------------------------------------------------------------------------
// replay artefacts
// ---------------------------------------------------------------------------------------------
pub fn verif_dir() -> String {
    std::env::var("VERIF_DIR").unwrap_or_else(|_| "/verif".to_string())
}

#[derive(Serialize, Deserialize)]
pub struct ReplayFile {
    pub property: String,
    pub expected: String,
    pub observed: Value,
    pub case: Case,
}

pub fn write_replay(prop: &str, case: &Case, expected: &str, observed: &Value) -> String {
    let rf = ReplayFile { property: prop.to_string(), expected: expected.to_string(), observed: observed.clone(), case: case.clone() };
    let body = serde_json::to_string_pretty(&rf).unwrap_or_else(|_| "{}".into());
    let mut h = H128::new();
    std::hash::Hasher::write(&mut h, body.as_bytes());
    let dir = format!("{}/replays", verif_dir());
    let _ = std::fs::create_dir_all(&dir);
    let path = format!("{}/{}-{:016x}.json", dir, prop, h.finish128() as u64);
    let _ = std::fs::write(&path, body);
    path
}

// ---------------------------------------------------------------------------------------------
// known findings
// ---------------------------------------------------------------------------------------------
#[derive(Deserialize, Clone, Debug)]
pub struct KnownFinding {
    pub property: String,
    pub id: String,
    /// violations carrying this signature are the listed finding
    pub signature: String,
    pub what: String,
}
#[derive(Deserialize, Default)]
pub struct KnownFile {
    #[serde(default)]
    pub findings: Vec<KnownFinding>,
    #[serde(default)]
    pub fixed: Vec<String>,
}
pub fn load_known() -> KnownFile {
    let p = format!("{}/known_findings.json", verif_dir());
    match std::fs::read_to_string(&p) {
        Ok(s) => serde_json::from_str(&s).unwrap_or_else(|e| {
            eprintln!("machinery error: cannot parse {}: {}", p, e);
            std::process::exit(2)
        }),
        Err(_) => KnownFile::default(),
    }
}

// ---------------------------------------------------------------------------------------------
// check context
// ---------------------------------------------------------------------------------------------
pub struct Scope {
    pub name: String,
    pub cases: u64,
    pub complete: bool,
    pub note: String,
    pub wall_s: f64,
}

pub struct Ctx {
    pub prop: String,
    pub level: &'static str,
    pub tier: Tier,
    pub seed: u64,
    pub start: Instant,
    pub budget: Duration,
    pub known: Vec<KnownFinding>,
    known_hits: Mutex<BTreeMap<String, (u64, String)>>,
    pub n_viol: AtomicUsize,
    viol_written: AtomicUsize,
    viol_lines: Mutex<Vec<String>>,
    pub evaluations: AtomicU64,
    pub nontrivial: AtomicU64,
    pub states: AtomicU64,
    pub transitions: AtomicU64,
    pub traces: AtomicU64,
    pub skipped: AtomicU64,
    pub samples: Mutex<Vec<Value>>,
    pub scopes: Mutex<Vec<Scope>>,
    pub extra: Mutex<BTreeMap<String, Value>>,
    pub rule: Mutex<String>,
    pub assumptions: Mutex<Vec<String>>,
    pub capped: AtomicBool,
}

impl Ctx {
    pub fn new(prop: &str, level: &'static str, tier: Tier) -> Ctx {
        let seed = std::env::var("VERIF_SEED").ok().and_then(|s| s.parse::<u64>().ok()).unwrap_or(0);
        let budget_s: u64 = std::env::var("VERIF_BUDGET_S")
            .ok()
            .and_then(|s| s.parse().ok())
            .unwrap_or(tier.pick(50, 1500));
        let _ = PROP.set(prop.to_string());
        let known = load_known().findings.into_iter().filter(|k| k.property == prop).collect();
        Ctx {
            prop: prop.to_string(),
            level,
            tier,
            seed,
            start: Instant::now(),
            budget: Duration::from_secs(budget_s),
            known,
            known_hits: Mutex::new(BTreeMap::new()),
            n_viol: AtomicUsize::new(0),
            viol_written: AtomicUsize::new(0),
            viol_lines: Mutex::new(Vec::new()),
            evaluations: AtomicU64::new(0),
            nontrivial: AtomicU64::new(0),
            states: AtomicU64::new(0),
            transitions: AtomicU64::new(0),
            traces: AtomicU64::new(0),
            skipped: AtomicU64::new(0),
            samples: Mutex::new(Vec::new()),
            scopes: Mutex::new(Vec::new()),
            extra: Mutex::new(BTreeMap::new()),
            rule: Mutex::new(String::new()),
            assumptions: Mutex::new(Vec::new()),
            capped: AtomicBool::new(false),
        }
    }
    pub fn eval(&self, n: u64) {
        self.evaluations.fetch_add(n, Ordering::Relaxed);
    }
    pub fn nontriv(&self, n: u64) {
        self.nontrivial.fetch_add(n, Ordering::Relaxed);
    }
    pub fn over_budget(&self) -> bool {
        self.start.elapsed() > self.budget
    }
    /// Returns false (and records the cap) if a new scope must not be started.
    pub fn may_start(&self, scope: &str) -> bool {
        // debugging aid: VERIF_ONLY=<substring> runs only the scopes whose name contains it (the run is then reported as capped)
        if let Ok(only) = std::env::var("VERIF_ONLY") {
            if !scope.contains(&only) {
                self.capped.store(true, Ordering::SeqCst);
                return false;
            }
        }
        if self.over_budget() {
            self.capped.store(true, Ordering::SeqCst);
            self.scopes.lock().unwrap().push(Scope {
                name: scope.to_string(),
                cases: 0,
                complete: false,
                note: "not started: wall-clock budget reached".into(),
                wall_s: 0.0,
            });
            eprintln!("[{}] scope {} skipped: budget reached", self.prop, scope);
            false
        } else {
            true
        }
    }
    pub fn scope_done(&self, name: &str, cases: u64, t0: Instant, note: &str) {
        let w = t0.elapsed().as_secs_f64();
        eprintln!("[{}] scope {:<28} cases={:<10} {:.1}s {}", self.prop, name, cases, w, note);
        self.scopes.lock().unwrap().push(Scope { name: name.to_string(), cases, complete: true, note: note.to_string(), wall_s: w });
    }
    pub fn sample(&self, v: Value) {
        let mut s = self.samples.lock().unwrap();
        if s.len() < 12 {
            s.push(v);
        }
    }
    pub fn set_extra(&self, k: &str, v: Value) {
        self.extra.lock().unwrap().insert(k.to_string(), v);
    }
    pub fn add_extra_count(&self, k: &str, n: u64) {
        let mut e = self.extra.lock().unwrap();
        let cur = e.get(k).and_then(|v| v.as_u64()).unwrap_or(0);
        e.insert(k.to_string(), json!(cur + n));
    }
    pub fn set_rule(&self, r: &str) {
        *self.rule.lock().unwrap() = r.to_string();
    }
    pub fn assume(&self, a: &str) {
        self.assumptions.lock().unwrap().push(a.to_string());
    }

    /// Report a property violation for `case`. `signature` identifies a class of failure that the
    /// known-findings file may list.
    pub fn violation(&self, case: &Case, expected: &str, observed: &Obs, signature: Option<&str>) {
        if let Some(sig) = signature {
            if let Some(k) = self.known.iter().find(|k| k.signature == sig) {
                let mut h = self.known_hits.lock().unwrap();
                let e = h.entry(k.id.clone()).or_insert((0, k.what.clone()));
                e.0 += 1;
                return;
            }
        }
        self.n_viol.fetch_add(1, Ordering::SeqCst);
        if self.viol_written.fetch_add(1, Ordering::SeqCst) >= 25 {
            return;
        }
        // determinism: the same case must give the same observation twice
        let o1 = run_case(case);
        let o2 = run_case(case);
        if !o1.same_as(&o2) {
            eprintln!("machinery error: replay of a failing case is not deterministic: {}", serde_json::to_string(case).unwrap_or_default());
            std::process::exit(2);
        }
        let obs = serde_json::to_value(observed).unwrap_or(Value::Null);
        let path = write_replay(&self.prop, case, expected, &obs);
        let line = format!("VIOLATION property={} replay={}", self.prop, path);
        println!("{}", line);
        println!("  expected: {}", expected);
        println!("  observed: {}", observed.brief());
        self.viol_lines.lock().unwrap().push(line);
    }

    /// Report a violation that is not tied to a replayable `Case` of lzma-rs (should be rare).
    pub fn violation_text(&self, what: &str, detail: Value) {
        self.n_viol.fetch_add(1, Ordering::SeqCst);
        if self.viol_written.fetch_add(1, Ordering::SeqCst) >= 25 {
            return;
        }
        let dir = format!("{}/replays", verif_dir());
        let _ = std::fs::create_dir_all(&dir);
        let body = serde_json::to_string_pretty(&json!({"property": self.prop, "what": what, "detail": detail})).unwrap();
        let mut h = H128::new();
        std::hash::Hasher::write(&mut h, body.as_bytes());
        let path = format!("{}/{}-{:016x}.json", dir, self.prop, h.finish128() as u64);
        let _ = std::fs::write(&path, body);
        println!("VIOLATION property={} replay={}", self.prop, path);
        println!("  {}", what);
    }

    pub fn machinery_error(&self, what: &str) -> ! {
        eprintln!("machinery error [{}]: {}", self.prop, what);
        println!("MACHINERY-ERROR property={} {}", self.prop, what);
        std::process::exit(2)
    }

    /// Write the evidence file and return the process exit code.
    pub fn finish(&self) -> i32 {
        let hits = self.known_hits.lock().unwrap();
        for (id, (n, what)) in hits.iter() {
            println!("KNOWN-FINDING: property={} {} [{}; {} case(s) in this run]", self.prop, what, id, n);
        }
        let nv = self.n_viol.load(Ordering::SeqCst);
        let scopes: Vec<Value> = self
            .scopes
            .lock()
            .unwrap()
            .iter()
            .map(|s| json!({"scope": s.name, "cases": s.cases, "complete": s.complete, "note": s.note, "wall_s": (s.wall_s*1000.0).round()/1000.0}))
            .collect();
        let capped = self.capped.load(Ordering::SeqCst);
        let mut cov = serde_json::Map::new();
        let evals = self.evaluations.load(Ordering::SeqCst);
        cov.insert("evaluations".into(), json!(evals));
        cov.insert("distinct_nontrivial".into(), json!(self.nontrivial.load(Ordering::SeqCst)));
        cov.insert("rule".into(), json!(self.rule.lock().unwrap().clone()));
        cov.insert("samples".into(), json!(self.samples.lock().unwrap().clone()));
        if self.level == "model_checking" {
            cov.insert("states".into(), json!(self.states.load(Ordering::SeqCst)));
            cov.insert("transitions".into(), json!(self.transitions.load(Ordering::SeqCst)));
            cov.insert("traces_validated_against_impl".into(), json!(self.traces.load(Ordering::SeqCst)));
        }
        cov.insert("exhaustive".into(), json!(!capped));
        cov.insert("scopes".into(), json!(scopes));
        cov.insert("skipped_not_submitted".into(), json!(self.skipped.load(Ordering::SeqCst)));
        cov.insert(
            "known_findings_hit".into(),
            json!(hits.iter().map(|(id, (n, _))| json!({"id": id, "cases": n})).collect::<Vec<_>>()),
        );
        for (k, v) in self.extra.lock().unwrap().iter() {
            cov.insert(k.clone(), v.clone());
        }
        if std::env::var("VERIF_AUX").is_err() {
            let auxp = format!("{}/evidence/aux/{}.wrapping.json", verif_dir(), self.prop);
            if let Ok(sx) = std::fs::read_to_string(&auxp) {
                if let Ok(v) = serde_json::from_str::<Value>(&sx) {
                    if v["tier"] == json!(self.tier.name()) {
                        cov.insert(
                            "wrapping_arithmetic_build".into(),
                            json!({"evaluations": v["coverage"]["evaluations"], "violations": v["violations"], "wall_s": v["wall_s"], "note": "same enumeration re-run with overflow-checks and debug-assertions off"}),
                        );
                    }
                }
            }
        }
        let ev = json!({
            "property_id": self.prop,
            "tier": self.tier.name(),
            "seed": self.seed,
            "level": self.level,
            "coverage": Value::Object(cov),
            "assumptions": self.assumptions.lock().unwrap().clone(),
            "wall_s": (self.start.elapsed().as_secs_f64()*1000.0).round()/1000.0,
            "violations": nv,
        });
        // auxiliary runs (e.g. the wrapping-arithmetic build) keep their evidence apart from the primary file
        let aux = std::env::var("VERIF_AUX").ok();
        let dir = match &aux {
            Some(_) => format!("{}/evidence/aux", verif_dir()),
            None => format!("{}/evidence", verif_dir()),
        };
        let _ = std::fs::create_dir_all(&dir);
        let path = match &aux {
            Some(a) => format!("{}/{}.{}.json", dir, self.prop, a),
            None => format!("{}/{}.json", dir, self.prop),
        };
        if aux.is_none() && self.tier == Tier::Thorough {
            // keep the last thorough evidence next to the quick one
            let tdir = format!("{}/evidence/thorough", verif_dir());
            let _ = std::fs::create_dir_all(&tdir);
            let _ = std::fs::write(format!("{}/{}.json", tdir, self.prop), serde_json::to_string_pretty(&ev).unwrap());
        }
        if let Err(e) = std::fs::write(&path, serde_json::to_string_pretty(&ev).unwrap()) {
            eprintln!("machinery error: cannot write {}: {}", path, e);
            return 2;
        }
        eprintln!(
            "[{}] {} tier: evaluations={} nontrivial={} states={} transitions={} violations={} capped={} wall={:.1}s",
            self.prop,
            self.tier.name(),
            evals,
            self.nontrivial.load(Ordering::SeqCst),
            self.states.load(Ordering::SeqCst),
            self.transitions.load(Ordering::SeqCst),
            nv,
            capped,
            self.start.elapsed().as_secs_f64()
        );
        if nv > 0 {
            1
        } else {
            0
        }
    }
}

pub fn hex(b: &[u8]) -> String {
    let mut s = String::with_capacity(b.len() * 2);
    for x in b {
        s.push_str(&format!("{:02x}", x));
    }
    s
}
pub fn unhex(s: &str) -> Result<Vec<u8>, String> {
    if s.len() % 2 != 0 {
        return Err("odd hex length".into());
    }
    (0..s.len() / 2).map(|i| u8::from_str_radix(&s[2 * i..2 * i + 2], 16).map_err(|e| e.to_string())).collect()
}
/// short printable form of a byte string for samples
pub fn brief_bytes(b: &[u8]) -> String {
    if b.len() <= 48 {
        hex(b)
    } else {
        format!("{}..({} bytes)", hex(&b[..40]), b.len())
    }
}

//! Reference LZMA2 chunk writer and strict decoder (liblzma's well-formedness rules).
use super::dec::{decode_segment, LzState, Stop};
use super::enc::{encode_with, props_byte, Model, Sym};
use serde::{Deserialize, Serialize};

#[derive(Clone, Debug, PartialEq, Eq, Serialize, Deserialize)]
pub enum Chunk {
    /// uncompressed chunk (control 1 = with dictionary reset, 2 = without)
    U { reset: bool, data: Vec<u8> },
    /// LZMA chunk; class 0 = nothing reset, 1 = state reset, 2 = state reset + new props,
    /// 3 = everything reset + new props. `props` is used for class 2/3.
    C { class: u8, props: (u32, u32, u32), prog: Vec<Sym> },
}

pub fn chunks_str(cs: &[Chunk]) -> String {
    cs.iter()
        .map(|c| match c {
            Chunk::U { reset, data } => format!("U{}[{}B]", if *reset { "r" } else { "" }, data.len()),
            Chunk::C { class, props, prog } => {
                format!("C{}({},{},{})[{}]", class, props.0, props.1, props.2, super::enc::prog_str(prog))
            }
        })
        .collect::<Vec<_>>()
        .join(" ")
}

/// Where the fields of one written chunk are inside the byte stream.
#[derive(Clone, Debug)]
pub struct ChunkLayout {
    pub control_off: usize,
    /// offset of the 2-byte unpacked size field
    pub unpacked_off: usize,
    /// offset of the 2-byte packed size field (compressed chunks)
    pub packed_off: Option<usize>,
    pub props_off: Option<usize>,
    pub body_off: usize,
    pub body_len: usize,
    pub unpacked: usize,
    pub compressed: bool,
}

pub struct Written {
    pub bytes: Vec<u8>,
    pub expect: Vec<u8>,
    /// None = well-formed; Some(reason) otherwise
    pub ill: Option<String>,
    /// every ill-formedness found (ill is the first of them)
    pub ills: Vec<String>,
    pub layout: Vec<ChunkLayout>,
    /// offset of the end byte 0x00
    pub end_off: usize,
}

/// Serialise a chunk sequence (followed by the end byte).
pub fn write(chunks: &[Chunk]) -> Written {
    let mut out = Vec::new();
    let mut m = Model::new(0, 0, 0);
    let mut ill: Option<String> = None;
    let mut need_dict_reset = true;
    let mut need_props = true;
    let mut layout = Vec::new();
    let ills: std::cell::RefCell<Vec<String>> = std::cell::RefCell::new(Vec::new());
    let note = |ill: &mut Option<String>, s: String| {
        ills.borrow_mut().push(s.clone());
        if ill.is_none() {
            *ill = Some(s)
        }
    };
    for (ci, c) in chunks.iter().enumerate() {
        match c {
            Chunk::U { reset, data } => {
                if data.is_empty() || data.len() > 0x10000 {
                    note(&mut ill, format!("chunk {}: uncompressed size {} out of range", ci, data.len()));
                }
                if *reset {
                    need_props = true;
                    need_dict_reset = false;
                    m.reset_dict();
                } else if need_dict_reset {
                    note(&mut ill, format!("chunk {}: first chunk must reset the dictionary", ci));
                }
                let control_off = out.len();
                out.push(if *reset { 1 } else { 2 });
                let unpacked_off = out.len();
                out.extend_from_slice(&((data.len().wrapping_sub(1)) as u16).to_be_bytes());
                let body_off = out.len();
                out.extend_from_slice(data);
                m.append_raw(data);
                layout.push(ChunkLayout {
                    control_off,
                    unpacked_off,
                    packed_off: None,
                    props_off: None,
                    body_off,
                    body_len: data.len(),
                    unpacked: data.len(),
                    compressed: false,
                });
            }
            Chunk::C { class, props, prog } => {
                let class = *class;
                if class == 3 {
                    need_dict_reset = false;
                    m.reset_dict();
                } else if need_dict_reset {
                    note(&mut ill, format!("chunk {}: first chunk must reset the dictionary", ci));
                }
                if class >= 2 {
                    need_props = false;
                    if props.0 + props.1 > 4 || props.0 > 8 || props.1 > 4 || props.2 > 4 {
                        note(&mut ill, format!("chunk {}: illegal props {:?}", ci, props));
                    }
                    m.reset_state(props.0, props.1, props.2);
                } else {
                    if need_props {
                        note(&mut ill, format!("chunk {}: properties needed after dictionary reset", ci));
                    }
                    if class == 1 {
                        let (lc, lp, pb) = (m.lc, m.lp, m.pb);
                        m.reset_state(lc, lp, pb);
                    }
                }
                if prog.iter().any(|s| matches!(s, Sym::E | Sym::EL(_))) {
                    note(&mut ill, format!("chunk {}: end marker inside LZMA2", ci));
                }
                let before = m.produced();
                let e = encode_with(&mut m, prog);
                if let Some(b) = e.bad {
                    note(&mut ill, format!("chunk {}: symbol {} is an invalid reference", ci, b));
                }
                let unpacked = m.produced() - before;
                let packed = e.payload.len();
                if unpacked == 0 || unpacked > (1 << 21) {
                    note(&mut ill, format!("chunk {}: unpacked size {} out of range", ci, unpacked));
                }
                if packed == 0 || packed > (1 << 16) {
                    note(&mut ill, format!("chunk {}: packed size {} out of range", ci, packed));
                }
                let u1 = unpacked.wrapping_sub(1);
                let control_off = out.len();
                out.push(0x80 | (class << 5) | ((u1 >> 16) & 0x1F) as u8);
                let unpacked_off = out.len();
                out.extend_from_slice(&((u1 & 0xFFFF) as u16).to_be_bytes());
                let packed_off = out.len();
                out.extend_from_slice(&((packed.wrapping_sub(1) & 0xFFFF) as u16).to_be_bytes());
                let mut props_off = None;
                if class >= 2 {
                    props_off = Some(out.len());
                    out.push(props_byte(props.0, props.1, props.2));
                }
                let body_off = out.len();
                out.extend_from_slice(&e.payload);
                layout.push(ChunkLayout {
                    control_off,
                    unpacked_off,
                    packed_off: Some(packed_off),
                    props_off,
                    body_off,
                    body_len: packed,
                    unpacked,
                    compressed: true,
                });
            }
        }
    }
    let end_off = out.len();
    out.push(0);
    let ills = ills.into_inner();
    Written { bytes: out, expect: m.output(), ill, ills, layout, end_off }
}

#[derive(Debug, Clone, PartialEq, Eq)]
pub enum V2 {
    /// valid; output and number of bytes consumed (including the end byte)
    Ok(Vec<u8>, usize),
    Invalid(String),
}

/// Strict LZMA2 decoder (rules of liblzma's lzma2_decoder + "chunk ends with
/// code == 0 exactly at its declared compressed size").
pub fn strict_decode(input: &[u8]) -> V2 {
    let mut pos = 0usize;
    let mut flushed: Vec<u8> = Vec::new();
    let mut win: Vec<u8> = Vec::new();
    let mut st = LzState::new(0, 0, 0);
    let mut need_dict_reset = true;
    let mut need_props = true;
    loop {
        if pos >= input.len() {
            return V2::Invalid("input ends before the end control byte".into());
        }
        let control = input[pos];
        pos += 1;
        if control == 0 {
            flushed.extend_from_slice(&win);
            return V2::Ok(flushed, pos);
        }
        if control >= 0xE0 || control == 1 {
            need_props = true;
            need_dict_reset = false;
            flushed.extend_from_slice(&win);
            win.clear();
        } else if need_dict_reset {
            return V2::Invalid("first chunk does not reset the dictionary".into());
        }
        if control >= 0x80 {
            if pos + 4 > input.len() {
                return V2::Invalid("truncated chunk header".into());
            }
            let unpacked = ((((control & 0x1F) as usize) << 16) | ((input[pos] as usize) << 8) | input[pos + 1] as usize) + 1;
            let packed = (((input[pos + 2] as usize) << 8) | input[pos + 3] as usize) + 1;
            pos += 4;
            if control >= 0xC0 {
                if pos >= input.len() {
                    return V2::Invalid("truncated before props".into());
                }
                let p = input[pos] as u32;
                pos += 1;
                if p >= 225 {
                    return V2::Invalid(format!("props byte {} >= 225", p));
                }
                let lc = p % 9;
                let lp = (p / 9) % 5;
                let pb = p / 45;
                if lc + lp > 4 {
                    return V2::Invalid(format!("lc+lp = {} > 4", lc + lp));
                }
                st = LzState::new(lc, lp, pb);
                need_props = false;
            } else if need_props {
                return V2::Invalid("LZMA chunk without properties after dictionary reset".into());
            } else if control >= 0xA0 {
                st = LzState::new(st.lc, st.lp, st.pb);
            }
            if pos + packed > input.len() {
                return V2::Invalid("compressed chunk body truncated".into());
            }
            let body = &input[pos..pos + packed];
            let target = (win.len() + unpacked) as u64;
            let d = decode_segment(&mut st, &mut win, u64::MAX, body, Some(target), false, None);
            match d.stop {
                Stop::SizeReached => {
                    if d.consumed != packed {
                        return V2::Invalid(format!("chunk payload ends at {} but {} declared", d.consumed, packed));
                    }
                    if !d.code_zero {
                        return V2::Invalid("range coder not finished (code != 0) at chunk end".into());
                    }
                }
                Stop::NeedInput => return V2::Invalid("chunk payload needs more input than its declared compressed size".into()),
                Stop::Overshoot => return V2::Invalid("chunk produces more bytes than declared".into()),
                Stop::Marker => return V2::Invalid("end marker inside LZMA2 chunk".into()),
                Stop::Corrupt(s) => return V2::Invalid(s),
                Stop::Budget => unreachable!(),
            }
            pos += packed;
        } else if control > 2 {
            return V2::Invalid(format!("control byte {:#x} is not 0,1,2 or >= 0x80", control));
        } else {
            if pos + 2 > input.len() {
                return V2::Invalid("truncated chunk header".into());
            }
            let n = (((input[pos] as usize) << 8) | input[pos + 1] as usize) + 1;
            pos += 2;
            if pos + n > input.len() {
                return V2::Invalid("uncompressed chunk shorter than declared".into());
            }
            win.extend_from_slice(&input[pos..pos + n]);
            pos += n;
        }
    }
}

//! C06 — XZ integrity: success implies every check passed; no silent corruption (E5 fault enumeration).
use super::c02::obs_of;
use super::c03::payload;
use crate::cases::{dec_plain, Case, Fmt, Hex, Opts, Rd, Sk};
use crate::common::{Ctx, Tier};
use crate::explore::par_for;
use crate::refmodel::xz::{self, mbi, Block, Vx, XzFile};
use serde_json::json;
use std::sync::atomic::Ordering;
use std::time::Instant;

pub fn base_files(tier: Tier) -> Vec<(String, XzFile)> {
    let mut v = Vec::new();
    let mk = |nb: usize, check: u8, sizes: bool, pad: usize| -> XzFile {
        let blocks = (0..nb)
            .map(|b| {
                let (p, plain) = payload(b % 3, (b + 1) % 4, b * 5 + check as usize);
                Block { payload: p, plain, with_csize: sizes, with_usize: sizes, extra_pad4: pad, ..Default::default() }
            })
            .collect();
        XzFile { check_id: check, blocks, ..Default::default() }
    };
    // blocks that agree in one index field and differ in the other: same unpadded size (9 bytes of LZMA2 each), content of
    // 5 / 2 / 5 / 3 bytes; and same content size with different unpadded sizes
    {
        use crate::refmodel::lzma2::{self, Chunk};
        let st = |parts: &[&[u8]]| -> (Vec<u8>, Vec<u8>) {
            let cs: Vec<Chunk> = parts.iter().enumerate().map(|(k, d)| Chunk::U { reset: k == 0, data: d.to_vec() }).collect();
            let w = lzma2::write(&cs);
            (w.bytes, w.expect)
        };
        let mk_blocks = |ps: Vec<(Vec<u8>, Vec<u8>)>| -> Vec<Block> { ps.into_iter().map(|(p, plain)| Block { payload: p, plain, ..Default::default() }).collect() };
        v.push(("2 blocks of equal unpadded size, 5/2 content bytes, check 1".into(), XzFile { check_id: 1, blocks: mk_blocks(vec![st(&[&b"abcde"[..]]), st(&[&b"f"[..], &b"g"[..]])]), ..Default::default() }));
        v.push(("4 blocks of equal unpadded size, 5/2/5/2 content bytes, check 1".into(), XzFile { check_id: 1, blocks: mk_blocks(vec![st(&[&b"abcde"[..]]), st(&[&b"f"[..], &b"g"[..]]), st(&[&b"hijkl"[..]]), st(&[&b"m"[..], &b"n"[..]])]), ..Default::default() }));
        v.push(("3 blocks of equal content size, different unpadded sizes, check 4".into(), XzFile { check_id: 4, blocks: mk_blocks(vec![st(&[&b"abcd"[..]]), st(&[&b"ef"[..], &b"gh"[..]]), st(&[&b"i"[..], &b"j"[..], &b"k"[..], &b"l"[..]])]), ..Default::default() }));
    }
    for (nb, check, sizes, pad) in [(1, 1, false, 0), (1, 4, true, 1), (2, 1, true, 0), (3, 4, false, 2), (1, 0, true, 0), (2, 0, false, 1), (0, 1, false, 0)] {
        v.push((format!("{} block(s) check {} size-fields {} extra-pad {}", nb, check, sizes, pad), mk(nb, check, sizes, pad)));
    }
    for (cs, us, check) in [(true, false, 1u8), (false, true, 4u8), (false, true, 1u8)] {
        let blocks: Vec<Block> = (0..2)
            .map(|b| {
                let (p, plain) = payload(b % 3, (b + 2) % 4, b * 3 + check as usize);
                Block { payload: p, plain, with_csize: cs, with_usize: us, ..Default::default() }
            })
            .collect();
        v.push((format!("2 block(s) check {} csize-field {} usize-field {}", check, cs, us), XzFile { check_id: check, blocks, ..Default::default() }));
    }
    // a block header of the maximum size (1024 bytes: about a thousand padding bytes)
    {
        let (p, plain) = payload(1, 2, 9);
        v.push(("1 block check 1 with a 1024-byte header".into(), XzFile { check_id: 1, blocks: vec![Block { payload: p, plain, with_usize: true, extra_pad4: 252, ..Default::default() }], ..Default::default() }));
    }
    if tier == Tier::Thorough {
        let kinds: Vec<(bool, bool, usize)> = vec![(false, false, 0), (true, false, 0), (false, true, 1), (true, true, 0), (false, false, 3), (true, true, 6)];
        for (a, ka) in kinds.iter().enumerate() {
            for (b, kb) in kinds.iter().enumerate() {
                let blocks: Vec<Block> = [(0usize, ka), (1, kb)]
                    .iter()
                    .map(|(i, k)| {
                        let (p, plain) = payload((i + a) % 3, (i + b) % 4, a * 7 + b);
                        Block { payload: p, plain, with_csize: k.0, with_usize: k.1, extra_pad4: k.2, ..Default::default() }
                    })
                    .collect();
                v.push((format!("2 heterogeneous blocks kinds {}/{} check {}", a, b, [1u8, 4, 0][(a + b) % 3]), XzFile { check_id: [1u8, 4, 0][(a + b) % 3], blocks, ..Default::default() }));
            }
        }
        for nb in 0..=3usize {
            for check in [0u8, 1, 4] {
                for sizes in [false, true] {
                    for pad in [0usize, 3] {
                        if nb == 0 && (sizes || pad > 0) {
                            continue;
                        }
                        let label = format!("{} block(s) check {} size-fields {} extra-pad {}", nb, check, sizes, pad);
                        if !v.iter().any(|x: &(String, XzFile)| x.0 == label) {
                            v.push((label, mk(nb, check, sizes, pad)));
                        }
                    }
                }
            }
        }
    }
    v
}

/// value domain for a numeric field whose true value is `t` (`width` bits wide)
fn value_domain(t: u64, width: u32) -> Vec<u64> {
    let mask = if width >= 64 { u64::MAX } else { (1u64 << width) - 1 };
    let mut v: Vec<u64> = Vec::new();
    for b in 0..width.min(40) {
        v.push(t ^ (1u64 << b));
    }
    v.extend([0, 1, t.wrapping_add(1), t.wrapping_sub(1), t.wrapping_add(1 << 30), t.wrapping_add(1 << 31), t.wrapping_add(1 << 32), mask, mask - 1, 1 << 31, (1u64 << 32) - 1, 1 << 62]);
    for x in v.iter_mut() {
        *x &= mask;
    }
    v.sort_unstable();
    v.dedup();
    v.retain(|x| *x != t);
    v
}

/// All single-field mutants of a file, each with all enclosing CRCs repaired.
/// Non-zero padding patterns of length n that a check folding the bytes (xor, wrapping sum, "first byte", "last byte",
/// "any byte with the top bit") would let through.
fn pad_patterns(n: usize) -> Vec<Vec<u8>> {
    let mut v: Vec<Vec<u8>> = Vec::new();
    if n >= 2 {
        for x in [0xFFu8, 0xC3, 0x01, 0x80] {
            let mut p = vec![0u8; n];
            p[0] = x;
            p[1] = x; // xor-cancelling pair
            v.push(p.clone());
            p[0] = x;
            p[1] = x.wrapping_neg(); // sum-cancelling pair
            v.push(p);
            v.push(vec![x; n]);
        }
    }
    if n >= 3 {
        v.push([vec![1u8, 2, 3], vec![0u8; n - 3]].concat());
        v.push([vec![0u8; n - 3], vec![0x7Fu8, 0x40, 0x3F]].concat());
    }
    v.retain(|p| p.iter().any(|b| *b != 0));
    v.sort();
    v.dedup();
    v
}

pub fn field_mutants(f: &XzFile) -> Vec<(String, XzFile)> {
    let mut out: Vec<(String, XzFile)> = Vec::new();
    let (_, spans) = xz::build(f);
    let span = |n: &str| spans.iter().find(|s| s.0 == n).map(|s| (s.1, s.2)).unwrap();
    let (bytes, _) = xz::build(f);
    // header magic
    for bit in 0..48 {
        let mut m = xz::MAGIC.to_vec();
        m[bit / 8] ^= 1 << (bit % 8);
        let mut g = f.clone();
        g.o_magic = Some(m);
        out.push((format!("header magic bit {}", bit), g));
    }
    for bit in 0..16 {
        let mut fl = [0u8, f.check_id];
        fl[bit / 8] ^= 1 << (bit % 8);
        let mut g = f.clone();
        g.o_hdr_flags = Some(fl);
        out.push((format!("header flags bit {} (header CRC repaired, footer flags untouched)", bit), g));
        let mut g = f.clone();
        g.o_ftr_flags = Some(fl);
        out.push((format!("footer flags bit {} (footer CRC repaired, header flags untouched)", bit), g));
    }
    // spare bytes after the LZMA2 end byte, covered by the declared compressed size and by the index (all consistent
    // with each other, not with the data: the block's compressed data ends before its declared size)
    for bi in 0..f.blocks.len() {
        if !f.blocks[bi].with_csize {
            continue;
        }
        for (extra, val) in [(1usize, 0u8), (4, 0), (4, 0x5A), (9, 0)] {
            let mut g = f.clone();
            g.blocks[bi].payload.extend(std::iter::repeat(val).take(extra));
            out.push((format!("block {}: {} spare byte(s) {:#04x} after the LZMA2 end byte inside the declared compressed size (index consistent)", bi, extra, val), g));
        }
    }
    // every field that describes the block's content (declared uncompressed size, block check, index record) written
    // for a PREFIX of what the payload really decodes to - or for one byte more: consistent with each other, not with the data
    for bi in 0..f.blocks.len() {
        let n = f.blocks[bi].plain.len();
        let mut ks: Vec<usize> = vec![0, n / 2, n.saturating_sub(1)];
        ks.sort_unstable();
        ks.dedup();
        for k in ks {
            if k >= n {
                continue;
            }
            for declare in [true, false] {
                let mut g = f.clone();
                g.blocks[bi].plain.truncate(k);
                g.blocks[bi].with_usize = declare;
                out.push((format!("block {}: {}block check and index record written for the first {} of the {} bytes the payload decodes to", bi, if declare { "declared uncompressed size, " } else { "" }, k, n), g));
            }
        }
        let mut g = f.clone();
        g.blocks[bi].plain.push(0);
        g.blocks[bi].with_usize = true;
        out.push((format!("block {}: declared uncompressed size, block check and index record written for the {} bytes of the payload plus one zero byte", bi, n), g));
    }
    let crc_at = |name: &str| {
        let (a, _) = span(name);
        u32::from_le_bytes([bytes[a], bytes[a + 1], bytes[a + 2], bytes[a + 3]])
    };
    for (fname, set) in [
        ("header.crc", (|g: &mut XzFile, v: u32| g.o_hdr_crc = Some(v)) as fn(&mut XzFile, u32)),
        ("index.crc", |g: &mut XzFile, v: u32| g.o_index_crc = Some(v)),
        ("footer.crc", |g: &mut XzFile, v: u32| g.o_footer_crc = Some(v)),
    ] {
        let t = crc_at(fname);
        for bit in 0..32 {
            let mut g = f.clone();
            set(&mut g, t ^ (1 << bit));
            out.push((format!("{} bit {}", fname, bit), g));
        }
    }
    for bit in 0..16 {
        let mut m = xz::FOOTER_MAGIC;
        m[bit / 8] ^= 1 << (bit % 8);
        let mut g = f.clone();
        g.o_ftr_magic = Some(m);
        out.push((format!("footer magic bit {}", bit), g));
    }
    // backward size
    {
        let (a, _) = span("footer.backward");
        let t = u32::from_le_bytes([bytes[a], bytes[a + 1], bytes[a + 2], bytes[a + 3]]) as u64;
        for v in value_domain(t, 32) {
            let mut g = f.clone();
            g.o_backward = Some(v as u32);
            out.push((format!("backward size {} := {} (footer CRC repaired)", t, v), g));
        }
    }
    // index
    for v in 1..=255u8 {
        if v % 16 == 1 || v < 4 || v == 255 {
            let mut g = f.clone();
            g.o_index_indicator = Some(v);
            out.push((format!("index indicator := {:#04x}", v), g));
        }
    }
    for v in value_domain(f.blocks.len() as u64, 63) {
        let mut g = f.clone();
        g.o_index_count = Some(mbi(v));
        out.push((format!("index record count {} := {}", f.blocks.len(), v), g));
    }
    // true records
    let mut recs: Vec<(u64, u64)> = Vec::new();
    for bi in 0..f.blocks.len() {
        let (hs, _) = span(&format!("block{}.header_size", bi));
        let (_, pe) = span(&format!("block{}.payload", bi));
        recs.push(((pe - hs + xz::check_size(f.check_id)) as u64, f.blocks[bi].plain.len() as u64));
    }
    for bi in 0..recs.len() {
        for which in 0..2 {
            let t = if which == 0 { recs[bi].0 } else { recs[bi].1 };
            for v in value_domain(t, 63) {
                let mut rs: Vec<(Vec<u8>, Vec<u8>)> = recs.iter().map(|(a, b)| (mbi(*a), mbi(*b))).collect();
                if which == 0 {
                    rs[bi].0 = mbi(v)
                } else {
                    rs[bi].1 = mbi(v)
                }
                let mut g = f.clone();
                g.o_records = Some(rs);
                out.push((format!("index record {} {} {} := {}", bi, if which == 0 { "unpadded size" } else { "uncompressed size" }, t, v), g));
            }
        }
    }
    // one record's field replaced by the SAME field of another record (a decoder that keeps its records in some compressed
    // or keyed form may answer with a neighbour's value)
    for i in 0..recs.len() {
        for j in 0..recs.len() {
            for which in 0..2 {
                let (ti, tj) = if which == 0 { (recs[i].0, recs[j].0) } else { (recs[i].1, recs[j].1) };
                if i != j && ti != tj {
                    let mut rs: Vec<(Vec<u8>, Vec<u8>)> = recs.iter().map(|(a, b)| (mbi(*a), mbi(*b))).collect();
                    if which == 0 {
                        rs[i].0 = mbi(tj)
                    } else {
                        rs[i].1 = mbi(tj)
                    }
                    let mut g = f.clone();
                    g.o_records = Some(rs);
                    out.push((format!("index record {} {} {} := {} (the value of record {})", i, if which == 0 { "unpadded size" } else { "uncompressed size" }, ti, tj, j), g));
                }
            }
        }
    }
    // the same extreme value in EVERY record at once (whatever is summed over the records then exceeds 64 bits from
    // three records of 2^63-1 on, or 63 bits from two)
    if recs.len() >= 2 {
        for v in [(1u64 << 63) - 1, (1 << 63) - 4, 1 << 62, (1 << 62) + 4, 0x5555_5555_5555_5554, 1 << 32, 0] {
            for which in 0..3 {
                let rs: Vec<(Vec<u8>, Vec<u8>)> = recs.iter().map(|(a, b)| (mbi(if which != 1 { v } else { *a }), mbi(if which != 0 { v } else { *b }))).collect();
                let mut g = f.clone();
                g.o_records = Some(rs);
                out.push((format!("every index record's {} := {}", ["unpadded size", "uncompressed size", "unpadded and uncompressed size"][which], v), g));
            }
        }
    }
    // compensating changes of two index fields (sums and count unchanged): records swapped, k moved between records
    for i in 0..recs.len() {
        for j in (i + 1)..recs.len() {
            let enc = |rs: &Vec<(u64, u64)>| -> Vec<(Vec<u8>, Vec<u8>)> { rs.iter().map(|(a, b)| (mbi(*a), mbi(*b))).collect() };
            if recs[i] != recs[j] {
                let mut rs = recs.clone();
                rs.swap(i, j);
                let mut g = f.clone();
                g.o_records = Some(enc(&rs));
                out.push((format!("index records {} and {} swapped", i, j), g));
            }
            for which in 0..2 {
                for k in [1u64, 4] {
                    let mut rs = recs.clone();
                    if which == 0 {
                        if rs[i].0 <= k { continue; }
                        rs[i].0 -= k;
                        rs[j].0 += k;
                    } else {
                        if rs[i].1 < k { continue; }
                        rs[i].1 -= k;
                        rs[j].1 += k;
                    }
                    let mut g = f.clone();
                    g.o_records = Some(enc(&rs));
                    out.push((format!("index: {} moved from record {} to record {} ({})", k, i, j, if which == 0 { "unpadded sizes" } else { "uncompressed sizes" }), g));
                }
            }
        }
    }
    // the index lists only a prefix of the blocks, or one record too many - count, records, padding, CRC and the
    // footer's backward size all consistent with each other (a single-field change cannot express this)
    for k in 0..=recs.len() + 1 {
        if k == recs.len() {
            continue;
        }
        let mut rs: Vec<(Vec<u8>, Vec<u8>)> = recs.iter().take(k).map(|(a, b)| (mbi(*a), mbi(*b))).collect();
        if k > recs.len() {
            let last = recs.last().copied().unwrap_or((12, 0));
            rs.push((mbi(last.0), mbi(last.1)));
        }
        let mut g = f.clone();
        g.o_index_count = Some(mbi(k as u64));
        g.o_records = Some(rs);
        out.push((format!("index rebuilt consistently with {} record(s) for {} block(s)", k, recs.len()), g));
    }
    {
        let (a, b) = span("index.pad");
        for i in 0..(b - a) {
            for val in [1u8, 0x80, 0xFF] {
                let mut p = vec![0u8; b - a];
                p[i] = val;
                let mut g = f.clone();
                g.o_index_pad = Some(p);
                out.push((format!("index padding byte {} := {:#04x}", i, val), g));
            }
        }
        for p in pad_patterns(b - a) {
            let mut g = f.clone();
            g.o_index_pad = Some(p.clone());
            out.push((format!("index padding := {:02x?}", p), g));
        }
    }
    // trailer
    for t in [vec![0u8], vec![0xFF], vec![0, 0, 0, 0], vec![0x59, 0x5A]] {
        let mut g = f.clone();
        g.trailer = t.clone();
        out.push((format!("appended bytes {:02x?}", t), g));
    }
    // per block
    for bi in 0..f.blocks.len() {
        let b0 = &f.blocks[bi];
        let (hs, _) = span(&format!("block{}.header_size", bi));
        let tsize = bytes[hs];
        for v in 1..=255u8 {
            if v != tsize && (v < 8 || v % 8 == tsize % 8 || (v as i16 - tsize as i16).abs() <= 2 || v == 255) {
                let mut g = f.clone();
                g.blocks[bi].o_header_size_byte = Some(v);
                out.push((format!("block {} header size byte {:#04x} := {:#04x}", bi, tsize, v), g));
            }
        }
        let tflags = bytes[hs + 1];
        for bit in 0..8 {
            let mut g = f.clone();
            g.blocks[bi].o_flags = Some(tflags ^ (1 << bit));
            out.push((format!("block {} flags {:#04x} bit {}", bi, tflags, bit), g));
        }
        if b0.with_csize {
            for v in value_domain(b0.payload.len() as u64, 63) {
                let mut g = f.clone();
                g.blocks[bi].o_csize = Some(mbi(v));
                out.push((format!("block {} declared compressed size {} := {}", bi, b0.payload.len(), v), g));
            }
        }
        if b0.with_usize {
            for v in value_domain(b0.plain.len() as u64, 63) {
                let mut g = f.clone();
                g.blocks[bi].o_usize = Some(mbi(v));
                out.push((format!("block {} declared uncompressed size {} := {}", bi, b0.plain.len(), v), g));
            }
        }
        for (id, ps, props) in [(mbi(0x20), mbi(1), vec![0x16u8]), (mbi(0x21), mbi(0), vec![]), (mbi(0x21), mbi(2), vec![0x16, 0]), (mbi(0x21), mbi(200), vec![0x16]), (mbi(0x21), mbi(u64::MAX >> 1), vec![0x16]), (mbi(0x22), mbi(1), vec![0x16]), (mbi(0x2000000021), mbi(1), vec![0x16])] {
            let mut g = f.clone();
            g.blocks[bi].o_filters = Some(vec![(id.clone(), ps.clone(), props.clone())]);
            out.push((format!("block {} filter id/props-size := {:02x?}/{:02x?}", bi, id, ps), g));
        }
        {
            let (a, b) = span(&format!("block{}.header_pad", bi));
            let plen = b - a;
            let mut where_: Vec<usize> = (0..plen.min(6)).collect();
            where_.extend([63usize, 64, 255, 256, 511, 512, 513, 700, 1000].into_iter().filter(|i| *i < plen));
            for i in where_ {
                for val in [1u8, 0xFF] {
                    let mut p = vec![0u8; b - a];
                    p[i] = val;
                    let mut g = f.clone();
                    g.blocks[bi].o_header_pad = Some(p);
                    out.push((format!("block {} header padding byte {} := {:#04x}", bi, i, val), g));
                }
            }
            for p in pad_patterns((b - a).min(8)) {
                let mut q = p.clone();
                q.resize(b - a, 0);
                let mut g = f.clone();
                g.blocks[bi].o_header_pad = Some(q);
                out.push((format!("block {} header padding starts {:02x?}", bi, p), g));
            }
            if b > a {
                let mut p = vec![0u8; b - a];
                p[b - a - 1] = 1;
                let mut g = f.clone();
                g.blocks[bi].o_header_pad = Some(p);
                out.push((format!("block {} last header padding byte := 1", bi), g));
            }
        }
        {
            let t = crc_at(&format!("block{}.header_crc", bi));
            for bit in 0..32 {
                let mut g = f.clone();
                g.blocks[bi].o_header_crc = Some(t ^ (1 << bit));
                out.push((format!("block {} header CRC bit {}", bi, bit), g));
            }
        }
        {
            let (a, b) = span(&format!("block{}.pad", bi));
            for i in 0..(b - a) {
                for val in [1u8, 0x80] {
                    let mut p = vec![0u8; b - a];
                    p[i] = val;
                    let mut g = f.clone();
                    g.blocks[bi].o_block_pad = Some(p);
                    out.push((format!("block {} padding byte {} := {:#04x}", bi, i, val), g));
                }
            }
            for p in pad_patterns(b - a) {
                let mut g = f.clone();
                g.blocks[bi].o_block_pad = Some(p.clone());
                out.push((format!("block {} padding := {:02x?}", bi, p), g));
            }
        }
        {
            let (a, b) = span(&format!("block{}.check", bi));
            for bit in 0..(b - a) * 8 {
                let mut c = bytes[a..b].to_vec();
                c[bit / 8] ^= 1 << (bit % 8);
                let mut g = f.clone();
                g.blocks[bi].o_check = Some(c);
                out.push((format!("block {} check value bit {}", bi, bit), g));
            }
        }
    }
    out
}

pub fn run(tier: Tier) -> i32 {
    let ctx = Ctx::new("C06", "fault_enumeration", tier);
    ctx.set_rule("E5 fault enumeration on reference-written .xz files: (a) every single-bit flip of every byte; (b) every listed integrity/size field x value domain {each single-bit flip of the field, 0, 1, true+-1, true+2^30/2^31/2^32, all-ones, ...} written through the reference writer so that ALL enclosing CRCs are recomputed and only the field's own validation can object; (c) truncation at every byte. Oracle: a mutant the strict reference parser calls inconsistent must be rejected (mutants that are still consistent files are skipped, not submitted); for CRC32/CRC64 files success with output != original is always a violation. distinct_nontrivial = submitted (b)-mutants, i.e. corruptions that no enclosing CRC can catch.");
    ctx.assume("strict reference parser encodes exactly the checks C06 lists (bound to liblzma on clean files)");
    let bases = base_files(tier);
    // ---------------------------------------------------------------- (b) field mutants with CRC repair
    {
        let t0 = Instant::now();
        let mut all: Vec<(usize, String, XzFile)> = Vec::new();
        for (bi, (_, f)) in bases.iter().enumerate() {
            for (what, g) in field_mutants(f) {
                all.push((bi, what, g));
            }
        }
        par_for(all.len() as u64, |i| {
            let (bi, what, g) = &all[i as usize];
            let (bytes, _) = xz::build(g);
            let orig: Vec<u8> = bases[*bi].1.blocks.iter().flat_map(|b| b.plain.clone()).collect();
            ctx.eval(1);
            let reason = match xz::strict_parse(&bytes) {
                Vx::Invalid(r) => r,
                Vx::Unsupported(r) => format!("unsupported: {}", r),
                Vx::Ok(_) => {
                    ctx.skipped.fetch_add(1, Ordering::Relaxed);
                    return;
                }
            };
            ctx.nontriv(1);
            let (v, out, consumed) = dec_plain(Fmt::Xz, &Opts::default(), &bytes);
            ctx.traces.fetch_add(1, Ordering::Relaxed);
            if !v.is_err() {
                let case = Case::Dec { fmt: Fmt::Xz, opts: Opts::default(), input: Hex(bytes.clone()), rd: Rd::default(), sk: Sk::default() };
                let silent = if v.is_ok() && out != orig { " (and the output differs from the original)" } else { "" };
                ctx.violation(&case, &format!("file [{}], {}: inconsistent ({}) => Err{}", bases[*bi].0, what, reason, silent), &obs_of(v, out, consumed), None);
                return;
            }
            // the verdict must not depend on how the source hands the bytes over (a check that looks only at the
            // currently visible buffer would accept the mutant under some fragmentation)
            for rd in [Rd { period: 1, ..Rd::default() }, Rd { period: 7, ..Rd::default() }, Rd { bufreader: 3, ..Rd::default() }, Rd { bufreader: 16, period: 5, ..Rd::default() }] {
                let case = Case::Dec { fmt: Fmt::Xz, opts: Opts::default(), input: Hex(bytes.clone()), rd: rd.clone(), sk: Sk::default() };
                let o = crate::cases::run_case(&case);
                ctx.traces.fetch_add(1, Ordering::Relaxed);
                if !o.v.is_err() {
                    ctx.violation(&case, &format!("file [{}], {}: inconsistent ({}) => Err, also when the source is read through {:?}", bases[*bi].0, what, reason, rd), &o, None);
                    return;
                }
            }
            // ... nor on a transient hiccup of the source (Interrupted at any one call; for appended bytes also WouldBlock /
            // TimedOut): a retried or reported hiccup never turns an inconsistent file into a success
            let kinds: &[u8] = if what.starts_with("appended bytes") { &[1, 2, 3] } else { &[1] };
            for kind in kinds {
                for k in 0..400usize {
                    let rd = Rd { fail_at: Some(k), fail_kind: *kind, ..Rd::default() };
                    let case = Case::Dec { fmt: Fmt::Xz, opts: Opts::default(), input: Hex(bytes.clone()), rd: rd.clone(), sk: Sk::default() };
                    let o = crate::cases::run_case(&case);
                    ctx.traces.fetch_add(1, Ordering::Relaxed);
                    if !o.fault_hit {
                        break;
                    }
                    if !o.v.is_err() {
                        ctx.violation(&case, &format!("file [{}], {}: inconsistent ({}) => Err, also when call #{} of the source fails once with error kind {} (1 Interrupted, 2 WouldBlock, 3 TimedOut)", bases[*bi].0, what, reason, k, kind), &o, None);
                        return;
                    }
                }
            }
            if i % 499 == 0 {
                ctx.sample(json!({"base": bases[*bi].0, "mutation": what, "reference_parser": reason}));
            }
        });
        ctx.scope_done("(b) field x value with CRC repair", all.len() as u64, t0, "");
    }
    // ---------------------------------------------------------------- (a) every bit flip, (c) every truncation
    {
        let t0 = Instant::now();
        let mut items: Vec<(usize, usize)> = Vec::new();
        let built: Vec<(Vec<u8>, xz::Spans)> = bases.iter().map(|(_, f)| xz::build(f)).collect();
        for (bi, (b, _)) in built.iter().enumerate() {
            for bit in 0..b.len() * 8 {
                items.push((bi, bit));
            }
        }
        par_for(items.len() as u64, |i| {
            let (bi, bit) = items[i as usize];
            let (b, spans) = &built[bi];
            let mut m = b.clone();
            m[bit / 8] ^= 1 << (bit % 8);
            let f = &bases[bi].1;
            let orig: Vec<u8> = f.blocks.iter().flat_map(|b| b.plain.clone()).collect();
            let field = spans.iter().find(|s| s.1 <= bit / 8 && bit / 8 < s.2).map(|s| s.0.clone()).unwrap_or_default();
            ctx.eval(1);
            let (v, out, consumed) = dec_plain(Fmt::Xz, &Opts::default(), &m);
            ctx.traces.fetch_add(1, Ordering::Relaxed);
            let has_crc = f.check_id == 1 || f.check_id == 4;
            let mut bad: Option<String> = None;
            if v.is_panic() {
                // panics are C07's subject; here only the verdict matters, but a panic is certainly not a rejection value
                bad = Some("Err (not a panic)".into());
            } else if v.is_ok() && has_crc && out != orig {
                bad = Some("never success with output different from the original".into());
            } else if v.is_ok() && !field.ends_with(".payload") {
                if let Vx::Invalid(r) = xz::strict_parse(&m) {
                    bad = Some(format!("inconsistent ({}) => Err", r));
                }
            } else if v.is_ok() && has_crc && field.ends_with(".payload") {
                // same output although a payload bit changed: legitimate only if the stream still decodes to the same bytes
            }
            if let Some(exp) = bad {
                let case = Case::Dec { fmt: Fmt::Xz, opts: Opts::default(), input: Hex(m), rd: Rd::default(), sk: Sk::default() };
                ctx.violation(&case, &format!("file [{}], bit {} of byte {} (field {}) flipped: {}", bases[bi].0, bit % 8, bit / 8, field, exp), &obs_of(v, out, consumed), None);
            }
        });
        ctx.scope_done("(a) every single-bit flip", items.len() as u64, t0, "");
        let t1 = Instant::now();
        let mut tr: Vec<(usize, usize)> = Vec::new();
        for (bi, (b, _)) in built.iter().enumerate() {
            for cut in 0..b.len() {
                tr.push((bi, cut));
            }
        }
        par_for(tr.len() as u64, |i| {
            let (bi, cut) = tr[i as usize];
            let m = built[bi].0[..cut].to_vec();
            ctx.eval(1);
            let (v, out, consumed) = dec_plain(Fmt::Xz, &Opts::default(), &m);
            if !v.is_err() {
                let case = Case::Dec { fmt: Fmt::Xz, opts: Opts::default(), input: Hex(m), rd: Rd::default(), sk: Sk::default() };
                ctx.violation(&case, &format!("file [{}] truncated to {} of {} bytes => Err", bases[bi].0, cut, built[bi].0.len()), &obs_of(v, out, consumed), None);
            }
        });
        ctx.scope_done("(c) every truncation", tr.len() as u64, t1, "");
    }
    // ---------------------------------------------------------------- (d) blocks with a chain of two LZMA2 filters. The .xz format allows
    // LZMA2 only as the last filter, so the reference parser has no opinion on such files; lzma-rs decodes them (each
    // stage in turn). Whatever it does with the honest file, the declared sizes must be those of the block as stored:
    // compressed size = bytes of the block's data in the file, uncompressed size = bytes delivered.
    {
        use crate::refmodel::lzma2::{self, Chunk};
        let t2 = Instant::now();
        let mut n = 0u64;
        for (nstage, dlen) in [(2usize, 37usize), (3, 300), (2, 5000)] {
            let data: Vec<u8> = (0..dlen as u32).map(|i| (i * 31 + 7) as u8).collect();
            let mut stage = data.clone();
            let mut lens = Vec::new();
            for _ in 0..nstage {
                let cs: Vec<Chunk> = stage.chunks(65536).enumerate().map(|(k, c)| Chunk::U { reset: k == 0, data: c.to_vec() }).collect();
                stage = lzma2::write(&cs).bytes;
                lens.push(stage.len());
            }
            let filters: Vec<(Vec<u8>, Vec<u8>, Vec<u8>)> = (0..nstage).map(|_| (mbi(0x21), mbi(1), vec![0x16u8])).collect();
            let base = XzFile { check_id: 1, blocks: vec![Block { payload: stage.clone(), plain: data.clone(), with_csize: true, with_usize: true, o_filters: Some(filters), ..Default::default() }], ..Default::default() };
            let (bytes, _) = xz::build(&base);
            // (whether or not the honest file is accepted, a file whose declared sizes are wrong must not be)
            let _ = &bytes;
            let true_c = stage.len() as u64;
            let mut cands: Vec<(String, Option<u64>, Option<u64>)> = Vec::new();
            for l in &lens {
                if *l as u64 != true_c {
                    cands.push((format!("compressed size := {} (length of an inner stage)", l), Some(*l as u64), None));
                }
            }
            for d in [1u64, 2, 4, 8] {
                cands.push((format!("compressed size := true - {}", d), Some(true_c - d), None));
                cands.push((format!("compressed size := true + {}", d), Some(true_c + d), None));
            }
            for l in lens.iter().chain([dlen + 1, dlen - 1].iter()) {
                if *l != dlen {
                    cands.push((format!("uncompressed size := {}", l), None, Some(*l as u64)));
                }
            }
            for (what, c, u) in cands {
                let mut g = base.clone();
                if let Some(c) = c {
                    g.blocks[0].o_csize = Some(mbi(c));
                }
                if let Some(u) = u {
                    g.blocks[0].o_usize = Some(mbi(u));
                }
                let (m, _) = xz::build(&g);
                let (v, out, consumed) = dec_plain(Fmt::Xz, &Opts::default(), &m);
                n += 1;
                ctx.eval(1);
                ctx.nontriv(1);
                if !v.is_err() {
                    let case = Case::Dec { fmt: Fmt::Xz, opts: Opts::default(), input: Hex(m), rd: Rd::default(), sk: Sk::default() };
                    ctx.violation(&case, &format!("block with {} chained LZMA2 filters ({} data bytes, {} bytes stored), header CRC repaired, declared {}: the declared size disagrees with the block => Err", nstage, dlen, true_c, what), &obs_of(v, out, consumed), None);
                }
            }
        }
        ctx.scope_done("(d) declared sizes of blocks with chained LZMA2 filters", n, t2, "wrong declared sizes are refused whether or not the decoder takes such chains");
    }
    ctx.set_extra("base_files", json!(bases.iter().map(|b| b.0.clone()).collect::<Vec<_>>()));
    ctx.finish()
}

#!/usr/bin/env python3
"""Prints the per-property coverage table of DESIGN.md §11 from the evidence files (quick and thorough)."""
import json, glob, os
rows = []
for pid in ["C%02d" % i for i in range(1, 19)]:
    r = {"id": pid}
    for tier, path in (("quick", "/verif/evidence/%s.json" % pid), ("thorough", "/verif/evidence/thorough/%s.json" % pid)):
        if os.path.exists(path):
            e = json.load(open(path))
            if e["tier"] != tier:
                continue
            c = e["coverage"]
            r[tier] = "%s evals, %s nontrivial%s, %.0fs%s" % (
                f'{c.get("evaluations", 0):,}', f'{c.get("distinct_nontrivial", 0):,}',
                (", %s states / %s transitions" % (f'{c["states"]:,}', f'{c["transitions"]:,}')) if "states" in c else "",
                e["wall_s"], "" if c.get("exhaustive", True) else " (capped)")
    rows.append(r)
print("| id | quick tier (measured) | thorough tier (measured) |")
print("|----|----|----|")
for r in rows:
    print("| %s | %s | %s |" % (r["id"], r.get("quick", "-"), r.get("thorough", "-")))

pub mod crc;
pub mod dec;
pub mod enc;
pub mod lzma2;
pub mod xz;

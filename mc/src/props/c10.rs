//! C10 — the memory limit is honoured exactly (E4 window closure for every limit, raw/public decoders at every
//! limit around the need, streaming decoder over all chunkings, heap growth measured by the counting allocator).
use super::c02::obs_of;
use super::stream_graph;
use super::window;
use crate::cases::{run_case, Case, Fmt, Hex, Opts, RawH, RawOp, Rd, SOp, Sk};
use crate::common::{brief_bytes, Ctx, Tier};
use crate::explore::par_for;
use crate::refmodel::enc::{self, prog_str, Sym};
use serde_json::json;
use std::sync::atomic::Ordering;
use std::time::Instant;

fn lits(n: usize) -> Vec<Sym> {
    (0..n).map(|i| Sym::L((0x61 + i * 7) as u8)).collect()
}

/// program producing exactly `target` bytes of varied content
pub fn grow(target: usize) -> Vec<Sym> {
    let mut p: Vec<Sym> = Vec::new();
    let mut produced = 0usize;
    while produced < target.min(48) {
        p.push(Sym::L(((produced * 67 + 3) & 0xFF) as u8));
        produced += 1;
    }
    let mut k = 0u32;
    while produced < target {
        let room = target - produced;
        if room >= 2 && k % 3 != 2 {
            let l = room.min(20 + (k as usize * 37) % 250).max(2);
            p.push(Sym::M(1 + (k * 11) % 40, l as u32));
            produced += l;
        } else {
            p.push(Sym::L((k * 29 + 1) as u8));
            produced += 1;
        }
        k += 1;
    }
    p
}

pub fn run(tier: Tier) -> i32 {
    let ctx = Ctx::new("C10", "model_checking", tier);
    ctx.set_rule("E4: closure of the real LzCircularBuffer's reachable states for dict 1..N x every limit m in 0..dict+1: an append fails exactly when min(dict, produced+1) > m, never earlier or later, otherwise behaves as unlimited, and the window never holds more than m bytes. Through the API: raw decoder (dict 1..8) and lzma_decompress_with_options (dict 4096) on programs producing lengths around the need x every m around need/dict; Stream with the same limits over ALL chunkings (state graph of the real Stream, see C05). need = min(dict, bytes produced). Peak heap (counting allocator) with limit m minus peak heap with limit 0 on the same input <= 2*m + 64. distinct_nontrivial = (program, limit) pairs with limit in {need-1, need, need+1}.");
    ctx.assume("Vec growth policy at most doubles capacity (2*m bound)");

    // ---------------------------------------------------------------- E4 with every limit
    {
        let nmax = tier.pick(5usize, 7usize);
        let name = format!("E4/circular/dict=1..{}/limit=0..dict+1", nmax);
        if ctx.may_start(&name) {
            let t0 = Instant::now();
            let mut cfgs = Vec::new();
            for d in 1..=nmax {
                for m in 0..=(d as u64 + 1) {
                    cfgs.push((d, m));
                }
            }
            let tot = std::sync::Mutex::new((0u64, 0u64, 0u64));
            par_for(cfgs.len() as u64, |i| {
                let (d, m) = cfgs[i as usize];
                let st = window::explore(&ctx, true, d, m, 2 * d + 3);
                ctx.eval(st.transitions + st.probes);
                let mut t = tot.lock().unwrap();
                t.0 += st.states;
                t.1 += st.transitions;
                t.2 += st.limit_errors;
                if m == d as u64 || m + 1 == d as u64 {
                    ctx.sample(json!({"scope": "E4/circular+limit", "dict": d, "limit": m, "states": st.states, "transitions": st.transitions, "limit_errors": st.limit_errors}));
                }
            });
            let t = tot.lock().unwrap();
            ctx.nontriv(t.2);
            ctx.scope_done(&name, t.1, t0, &format!("{} states, {} transitions, {} of them limit errors", t.0, t.1, t.2));
        }
    }

    // ---------------------------------------------------------------- raw decoder, dict 1..8, every m
    {
        let nmax = tier.pick(8usize, 11usize);
        let name = format!("raw/dict=1..{}/every-limit", nmax);
        if ctx.may_start(&name) {
            let t0 = Instant::now();
            let mut items = Vec::new();
            for n in 1..=nmax {
                for j in 1..=(2 * n + 2) {
                    for d in 1..=n.min(j) {
                        for l in [2usize, n, 2 * n + 1] {
                            for m in (0..=(n as u64 + 2)).chain([u64::MAX]) {
                                items.push((n, j, d, l.max(2), m));
                            }
                        }
                    }
                }
            }
            par_for(items.len() as u64, |i| {
                let (n, j, d, l, m) = items[i as usize];
                let mut prog = lits(j);
                prog.push(Sym::M(d as u32, l as u32));
                prog.push(Sym::L(0x7E));
                let e = enc::encode(3, 0, 2, n as u64, &prog);
                let total = e.expect.len();
                let need = total.min(n) as u64;
                ctx.eval(1);
                if m.saturating_add(1) >= need && m <= need + 1 {
                    ctx.nontriv(1);
                }
                ctx.states.fetch_add(1, Ordering::Relaxed);
                ctx.transitions.fetch_add(1, Ordering::Relaxed);
                let ml = if m == u64::MAX { None } else { Some(m) };
                let r = match RawH::new_lzma(3, 0, 2, n as u32, Some(total as u64), ml) {
                    Ok(mut h) => h.apply(&RawOp::Dec(Hex(e.payload.clone()))),
                    Err(_) => return,
                };
                ctx.traces.fetch_add(1, Ordering::Relaxed);
                let ok = if need <= m { r.v.is_ok() && r.out == e.expect } else { r.v.is_err() && e.expect.starts_with(&r.out) };
                if !ok {
                    let case = Case::RawLzma { lc: 3, lp: 0, pb: 2, dict: n as u32, size: Some(total as u64), memlimit: ml, ops: vec![RawOp::Dec(Hex(e.payload.clone()))] };
                    ctx.violation(&case, &format!("program [{}] dict {} limit {}: needed window min(dict, produced) = {} => {}", prog_str(&prog), n, m, need, if need <= m { format!("Ok with output {}", brief_bytes(&e.expect)) } else { "Err, delivered bytes a prefix of the correct output".into() }), &obs_of(r.v, r.out, r.consumed), None);
                }
            });
            ctx.scope_done(&name, items.len() as u64, t0, "limit m in 0..dict+2 and unlimited");
        }
    }

    // ---------------------------------------------------------------- the declared size is reached INSIDE a copy: the window grows past
    // the declared size (the size is only looked at between symbols), so a limit between the declared size and the bytes
    // really produced is exceeded - whatever the header promised
    {
        let name = "declared-size-reached-inside-a-copy";
        if ctx.may_start(name) {
            let t0 = Instant::now();
            let mut items: Vec<(usize, usize, u32, u64, u8)> = Vec::new();
            for u in [20usize, 100, 300, 4000] {
                for before in [1usize, 5, 100] {
                    for over in [1u32, 30, 200] {
                        for mk in 0..3u64 {
                            for how in 0..4u8 {
                                items.push((u, before, over, mk, how));
                            }
                        }
                    }
                }
            }
            par_for(items.len() as u64, |i| {
                let (u, before, over, mk, how) = items[i as usize];
                if before >= u {
                    return;
                }
                // u - before bytes, then one copy of before + over bytes: u + over bytes are produced
                let mut prog = grow(u - before);
                let l = (before as u32 + over).min(273).max(2);
                prog.push(Sym::M(1 + (u as u32 % 7).min((u - before) as u32 - 1), l));
                let e = enc::encode(3, 0, 2, 1 << 16, &prog);
                if e.bad.is_some() {
                    return;
                }
                let produced = e.expect.len() as u64;
                if produced <= u as u64 {
                    return;
                }
                let m = [u as u64, u as u64 + 1, produced - 1][mk as usize];
                if m >= produced || m < u as u64 {
                    return;
                }
                let file = enc::lzma_file(3, 0, 2, 1 << 16, Some(u as u64), &e.payload);
                let opts = Opts { memlimit: Some(m), allow_incomplete: how == 3, ..Opts::default() };
                let case = match how {
                    0 => Case::Dec { fmt: Fmt::Lzma, opts, input: Hex(file.clone()), rd: Rd::default(), sk: Sk::default() },
                    1 => Case::Stream { opts, sk: Sk::default(), ops: vec![SOp::WriteAll(Hex(file.clone())), SOp::Finish] },
                    2 => Case::Stream { opts, sk: Sk::default(), ops: file.iter().map(|b| SOp::WriteAll(Hex(vec![*b]))).chain([SOp::Finish]).collect() },
                    _ => Case::Stream { opts, sk: Sk::default(), ops: vec![SOp::WriteAll(Hex(file.clone())), SOp::Finish] },
                };
                let o = run_case(&case);
                ctx.eval(1);
                ctx.nontriv(1);
                let failed = if o.ops.is_empty() { o.v.is_err() } else { o.ops.iter().any(|r| r.v.is_err()) && !o.ops.iter().any(|r| r.v.is_panic()) };
                if !(failed && o.out.0.len() as u64 <= m && e.expect.starts_with(&o.out.0)) {
                    ctx.violation(&case, &format!("header declares {} bytes, the last symbol is a copy that produces {} in all, limit {}: the window needs more than the limit => Err, at most {} bytes (a prefix) delivered", u, produced, m, m), &o, None);
                }
            });
            ctx.scope_done(name, items.len() as u64, t0, "declared sizes 20..4000, copies overshooting by 1..200, limits declared / declared+1 / produced-1, one-shot and Stream");
        }
    }
    // ---------------------------------------------------------------- public API, dict 4096 (and a larger one)
    {
        let name = "public/dict=4096,65536/limits-around-need";
        if ctx.may_start(name) {
            let t0 = Instant::now();
            let mut items = Vec::new();
            let lens: Vec<usize> = tier.pick(vec![0, 1, 9, 4090, 4095, 4096, 4097, 4100, 8190, 8192, 8200], (0..3).chain(4088..4104).chain(8186..8200).collect());
            for &total in &lens {
                for dict in [4096u32, 65536] {
                    let need = total.min(dict as usize) as u64;
                    let mut ms: Vec<u64> = vec![0, need.saturating_sub(1), need, need + 1, 4095, 4096, 4097, 1 << 32, (1 << 32) + 3, 1 << 40, u64::MAX - 1, u64::MAX];
                    ms.sort_unstable();
                    ms.dedup();
                    for m in ms {
                        items.push((total, dict, m));
                    }
                }
            }
            par_for(items.len() as u64, |i| {
                let (total, dict, m) = items[i as usize];
                let prog = grow(total);
                let e = enc::encode(3, 0, 2, dict as u64, &prog);
                assert!(e.bad.is_none() && e.expect.len() == total);
                let need = total.min(dict as usize) as u64;
                let file = enc::lzma_file(3, 0, 2, dict, Some(total as u64), &e.payload);
                let ml = if m == u64::MAX { None } else { Some(m) };
                let opts = Opts { memlimit: ml, ..Opts::default() };
                let case = Case::Dec { fmt: Fmt::Lzma, opts, input: Hex(file.clone()), rd: Rd::default(), sk: Sk::default() };
                let o = run_case(&case);
                ctx.eval(1);
                if m.saturating_add(1) >= need && m <= need + 1 {
                    ctx.nontriv(1);
                }
                ctx.states.fetch_add(1, Ordering::Relaxed);
                ctx.transitions.fetch_add(1, Ordering::Relaxed);
                ctx.traces.fetch_add(1, Ordering::Relaxed);
                let ok = if need <= m { o.v.is_ok() && o.out.0 == e.expect } else { o.v.is_err() && e.expect.starts_with(&o.out.0) };
                if !ok {
                    ctx.violation(&case, &format!("{} output bytes, dict {}, limit {}: needed window {} => {}", total, dict, m, need, if need <= m { "Ok, identical to unlimited" } else { "Err, delivered bytes a prefix" }), &o, None);
                    return;
                }
                // heap growth: compare with the same input under limit 0 (fails at the first byte: baseline of tables and I/O)
                if m < (1 << 31) {
                    let c0 = Case::Dec { fmt: Fmt::Lzma, opts: Opts { memlimit: Some(0), ..Opts::default() }, input: Hex(file), rd: Rd::default(), sk: Sk::default() };
                    let o0 = run_case(&c0);
                    // the Vec sink of the harness holds the delivered output: subtract what was delivered
                    let extra = o.peak_heap.saturating_sub(o0.peak_heap).saturating_sub(2 * o.out.0.len() + 64);
                    if extra as u64 > 2 * m + 64 {
                        ctx.violation(&case, &format!("peak heap with limit {} exceeds peak heap with limit 0 by at most 2*m+64 (+ sink contents); measured extra {}", m, extra), &o, None);
                    }
                }
                if i % 37 == 0 {
                    ctx.sample(json!({"scope": name, "output_bytes": total, "dict": dict, "limit": m, "need": need, "verdict": o.v.class(), "peak_heap": o.peak_heap}));
                }
            });
            ctx.scope_done(name, items.len() as u64, t0, "m in {0, need-1, need, need+1, 4095, 4096, 4097, usize::MAX-1, unlimited}");
        }
    }

    // ---------------------------------------------------------------- windows above 1 MiB, and literal-context settings with large tables:
    // the limit is about the window actually needed, nothing else (not growth steps, not probability tables)
    {
        let name = "public+stream/large-windows-and-wide-literal-contexts";
        if ctx.may_start(name) {
            let t0 = Instant::now();
            let mut items: Vec<(u32, u32, u32, u32, usize, i64)> = Vec::new();
            for (dict, total) in [(1u32 << 23, 1_300_000usize), (0x18_0000, 0x18_0000 + 4000), (1 << 21, (1 << 21) - 1)] {
                for dm in [-1i64, 0, 1, 70_000] {
                    items.push((3, 0, 2, dict, total, dm));
                }
            }
            for (lc, lp, pb) in [(8u32, 0u32, 2u32), (3, 2, 2), (8, 4, 4), (0, 4, 0), (4, 1, 0)] {
                for (dict, total) in [(4096u32, 300usize), (4096, 4096), (4096, 5000), (65536, 9000)] {
                    for dm in [-1i64, 0, 1] {
                        items.push((lc, lp, pb, dict, total, dm));
                    }
                }
            }
            par_for(items.len() as u64, |i| {
                let (lc, lp, pb, dict, total, dm) = items[i as usize];
                let prog = grow(total);
                let e = enc::encode(lc, lp, pb, dict as u64, &prog);
                assert!(e.bad.is_none() && e.expect.len() == total);
                let need = total.min(dict as usize) as i64;
                let m = (need + dm).max(0) as u64;
                let file = enc::lzma_file(lc, lp, pb, dict, Some(total as u64), &e.payload);
                let opts = Opts { memlimit: Some(m), ..Opts::default() };
                for stream in [false, true] {
                    let case = if stream {
                        let mut ops: Vec<SOp> = file.chunks(4099).map(|c| SOp::WriteAll(Hex(c.to_vec()))).collect();
                        ops.push(SOp::Finish);
                        Case::Stream { opts, sk: Sk::default(), ops }
                    } else {
                        Case::Dec { fmt: Fmt::Lzma, opts, input: Hex(file.clone()), rd: Rd::default(), sk: Sk::default() }
                    };
                    let o = run_case(&case);
                    ctx.eval(1);
                    ctx.nontriv(1);
                    ctx.traces.fetch_add(1, Ordering::Relaxed);
                    let failed = if o.ops.is_empty() { o.v.is_err() } else { o.ops.iter().any(|r| r.v.is_err()) };
                    let all_ok = if o.ops.is_empty() { o.v.is_ok() } else { o.ops.iter().all(|r| r.v.is_ok()) };
                    let ok = if need as u64 <= m { all_ok && o.out.0 == e.expect } else { failed && e.expect.starts_with(&o.out.0) };
                    if !ok {
                        ctx.violation(&case, &format!("lc={} lp={} pb={}, {} output bytes, dict {}, limit {}: needed window {} => {}", lc, lp, pb, total, dict, m, need, if need as u64 <= m { "Ok, identical to unlimited" } else { "Err, delivered bytes a prefix" }), &o, None);
                        return;
                    }
                }
            });
            ctx.scope_done(name, items.len() as u64, t0, "windows of 1.3 - 2 MiB with limits need-1 / need / need+1 / need+70000; lc+lp up to 12");
        }
    }
    // ---------------------------------------------------------------- header dictionary field below 4096: the window in effect is 4096 bytes
    {
        let name = "public/header-dict-below-4096";
        if ctx.may_start(name) {
            let t0 = Instant::now();
            let mut items = Vec::new();
            for &total in &[0usize, 600, 1001, 3000, 4095, 4096, 4097, 9000] {
                for hdr in [0u32, 1, 16, 512, 999, 4095] {
                    let need = total.min(4096) as u64;
                    let mut ms: Vec<u64> = vec![0, hdr as u64, hdr as u64 + 1, 1000, 1500, 2999, 3000, 4095, 4096, need.saturating_sub(1), need, need + 1, u64::MAX];
                    ms.sort_unstable();
                    ms.dedup();
                    for m in ms {
                        items.push((total, hdr, m));
                    }
                }
            }
            par_for(items.len() as u64, |i| {
                let (total, hdr, m) = items[i as usize];
                let prog = grow(total);
                let e = enc::encode(3, 0, 2, 4096, &prog);
                assert!(e.bad.is_none() && e.expect.len() == total);
                let need = total.min(4096) as u64;
                let file = enc::lzma_file(3, 0, 2, hdr, Some(total as u64), &e.payload);
                let ml = if m == u64::MAX { None } else { Some(m) };
                ctx.eval(2);
                ctx.nontriv(2);
                ctx.traces.fetch_add(2, Ordering::Relaxed);
                let what = format!("header dictionary field {} (window in effect 4096), {} output bytes, limit {}: needed window {} => {}", hdr, total, m, need, if need <= m { "Ok, identical to unlimited" } else { "Err, delivered bytes a prefix" });
                let case = Case::Dec { fmt: Fmt::Lzma, opts: Opts { memlimit: ml, ..Opts::default() }, input: Hex(file.clone()), rd: Rd::default(), sk: Sk::default() };
                let o = run_case(&case);
                let ok = if need <= m { o.v.is_ok() && o.out.0 == e.expect } else { o.v.is_err() && e.expect.starts_with(&o.out.0) };
                if !ok {
                    ctx.violation(&case, &what, &o, None);
                    return;
                }
                // the streaming decoder, input written 7 bytes at a time
                let mut ops: Vec<SOp> = file.chunks(7).map(|c| SOp::WriteAll(Hex(c.to_vec()))).collect();
                ops.push(SOp::Finish);
                let case = Case::Stream { opts: Opts { memlimit: ml, ..Opts::default() }, sk: Sk::default(), ops };
                let o = run_case(&case);
                let ok = if need <= m { o.v.is_ok() && o.out.0 == e.expect } else { o.ops.iter().any(|r| r.v.is_err()) && e.expect.starts_with(&o.out.0) };
                if !ok {
                    ctx.violation(&case, &format!("Stream: {}", what), &o, None);
                }
            });
            ctx.scope_done(name, items.len() as u64, t0, "header field 0/1/16/512/999/4095 x limits below and above it, one-shot and Stream");
        }
    }
    // ---------------------------------------------------------------- output that grows by copies only (one literal, then matches):
    // bytes produced by a copy count against the limit like literals do
    {
        let name = "public+raw+stream/growth-by-copies-only";
        if ctx.may_start(name) {
            let t0 = Instant::now();
            let mut items = Vec::new();
            for total in [2usize, 300, 1000, 4096, 5000] {
                for dict in [4096u32, 65536] {
                    let need = total.min(dict as usize) as u64;
                    for m in [0u64, 1, need / 2, need.saturating_sub(1), need, need + 1] {
                        for how in 0..8 {
                            items.push((total, dict, m, how, false));
                            items.push((total, dict, m, how, true));
                        }
                    }
                }
            }
            par_for(items.len() as u64, |i| {
                let (total, dict, m, how, zero_tail) = items[i as usize];
                // (zero_tail: 100 varied bytes, then only 0x00 bytes - as literals and as copies of them)
                let mut prog = vec![Sym::L(0x61)];
                let mut produced = 1usize;
                if zero_tail {
                    while produced < total.min(100) {
                        prog.push(Sym::L((produced * 37 + 1) as u8 | 1));
                        produced += 1;
                    }
                    let mut k = 0usize;
                    while produced < total {
                        if k % 3 == 2 && total - produced >= 2 && produced > 101 {
                            let l = (total - produced).min(20);
                            prog.push(Sym::M(1, l as u32));
                            produced += l;
                        } else {
                            prog.push(Sym::L(0));
                            produced += 1;
                        }
                        k += 1;
                    }
                }
                while produced < total {
                    let l = (total - produced).min(273);
                    if l < 2 {
                        prog.push(Sym::S);
                        produced += 1;
                    } else {
                        prog.push(Sym::M(1, l as u32));
                        produced += l;
                    }
                }
                let need = total.min(dict as usize) as u64;
                let sized = how != 1;
                if !sized {
                    prog.push(Sym::E);
                }
                let e = enc::encode(3, 0, 2, dict as u64, &prog);
                assert!(e.bad.is_none() && e.expect.len() == total);
                let opts = |size| Opts { memlimit: Some(m), size, ..Opts::default() };
                let case = match how {
                    0 => Case::Dec { fmt: Fmt::Lzma, opts: opts(crate::cases::SizeOpt::Header), input: Hex(enc::lzma_file(3, 0, 2, dict, Some(total as u64), &e.payload)), rd: Rd::default(), sk: Sk::default() },
                    1 => Case::Dec { fmt: Fmt::Lzma, opts: opts(crate::cases::SizeOpt::Header), input: Hex(enc::lzma_file(3, 0, 2, dict, None, &e.payload)), rd: Rd::default(), sk: Sk::default() },
                    2 => Case::Dec { fmt: Fmt::Lzma, opts: opts(crate::cases::SizeOpt::HeaderProvided(Some(total as u64))), input: Hex(enc::lzma_file(3, 0, 2, dict, Some(7), &e.payload)), rd: Rd::default(), sk: Sk::default() },
                    3 => Case::RawLzma { lc: 3, lp: 0, pb: 2, dict, size: Some(total as u64), memlimit: Some(m), ops: vec![RawOp::Dec(Hex(e.payload.clone()))] },
                    4 => Case::Stream { opts: opts(crate::cases::SizeOpt::Header), sk: Sk::default(), ops: vec![SOp::WriteAll(Hex(enc::lzma_file(3, 0, 2, dict, Some(total as u64), &e.payload))), SOp::Finish] },
                    // Stream that allows incomplete input, fed bytewise (the limit is not "incomplete input")
                    5 => {
                        let f = enc::lzma_file(3, 0, 2, dict, Some(total as u64), &e.payload);
                        let mut ops: Vec<SOp> = f.iter().map(|b| SOp::WriteAll(Hex(vec![*b]))).collect();
                        ops.push(SOp::Finish);
                        Case::Stream { opts: Opts { allow_incomplete: true, ..opts(crate::cases::SizeOpt::Header) }, sk: Sk::default(), ops }
                    }
                    // raw decoder constructed with the limit, reused: reset(None) / a small decode + reset(Some(size)) first
                    6 => Case::RawLzma { lc: 3, lp: 0, pb: 2, dict, size: Some(total as u64), memlimit: Some(m), ops: vec![RawOp::Reset, RawOp::Dec(Hex(e.payload.clone()))] },
                    _ => Case::RawLzma { lc: 3, lp: 0, pb: 2, dict, size: Some(0), memlimit: Some(m), ops: vec![RawOp::Dec(Hex(enc::encode(3, 0, 2, dict as u64, &[]).payload)), RawOp::ResetSize(Some(total as u64)), RawOp::Dec(Hex(e.payload.clone()))] },
                };
                let o = run_case(&case);
                ctx.eval(1);
                ctx.nontriv(1);
                ctx.traces.fetch_add(1, Ordering::Relaxed);
                if sized == false && how >= 5 {
                    return; // (the marker variant is how == 1 only)
                }
                let failed = if o.ops.is_empty() { o.v.is_err() } else { o.ops.iter().any(|r| r.v.is_err()) };
                let all_ok = if o.ops.is_empty() { o.v.is_ok() } else { o.ops.iter().all(|r| r.v.is_ok()) };
                let ok = if need <= m { all_ok && o.out.0 == e.expect } else { failed && e.expect.starts_with(&o.out.0) };
                if !ok {
                    ctx.violation(&case, &format!("{}, {} output bytes, dict {}, limit {}: needed window {} => {}", if zero_tail { "100 varied bytes then only zero bytes" } else { "one literal then copies only" }, total, dict, m, need, if need <= m { "Ok, identical to unlimited" } else { "Err, delivered bytes a prefix" }), &o, None);
                }
            });
            ctx.scope_done(name, items.len() as u64, t0, "size in header / marker / provided size / raw decoder / Stream / Stream with allow_incomplete bytewise / reused raw decoder");
        }
    }
    // ---------------------------------------------------------------- a window that wraps needs no more memory than one that is about to wrap
    {
        let name = "public/wrap-does-not-grow-heap";
        if ctx.may_start(name) {
            let t0 = Instant::now();
            let mut items = Vec::new();
            for dict in [4096u32, 5000, 6144] {
                for total in [dict as usize, dict as usize + 1, 2 * dict as usize + 7, 3 * dict as usize + 10] {
                    for m in [dict as u64, dict as u64 + 1, dict as u64 + 1500, 2 * dict as u64 - 200] {
                        for stream in [false, true] {
                            items.push((dict, total, m, stream));
                        }
                    }
                }
            }
            par_for(items.len() as u64, |i| {
                let (dict, total, m, stream) = items[i as usize];
                let reserve = 3 * dict as usize + 128;
                let mk = |n: usize| -> (Case, Vec<u8>) {
                    let e = enc::encode(3, 0, 2, dict as u64, &grow(n));
                    let file = enc::lzma_file(3, 0, 2, dict, Some(n as u64), &e.payload);
                    let opts = Opts { memlimit: Some(m), ..Opts::default() };
                    let sk = Sk { reserve, ..Sk::default() };
                    if stream {
                        (Case::Stream { opts, sk, ops: vec![SOp::WriteAll(Hex(file)), SOp::Finish] }, e.expect)
                    } else {
                        (Case::Dec { fmt: Fmt::Lzma, opts, input: Hex(file), rd: Rd::default(), sk }, e.expect)
                    }
                };
                let (wrap, expect) = mk(total);
                let (nowrap, _) = mk(dict as usize - 1);
                let a = run_case(&wrap);
                let b = run_case(&nowrap);
                ctx.eval(2);
                ctx.nontriv(1);
                ctx.traces.fetch_add(2, Ordering::Relaxed);
                if !(a.v.is_ok() && a.out.0 == expect && b.v.is_ok()) {
                    ctx.violation(&wrap, &format!("dict {} limit {}: {} output bytes decode Ok (limit >= dictionary size)", dict, m, total), &a, None);
                    return;
                }
                // history in the no-wrap run: dict-1 bytes; the wrapping run may hold at most m bytes of history
                let allowed = b.peak_heap + (m as usize - (dict as usize - 1)) + 64;
                if a.peak_heap > allowed {
                    ctx.violation(&wrap, &format!("dict {} limit {}: peak heap while decoding {} bytes (window wraps) <= peak heap while decoding {} bytes (window one byte short of wrapping) {} + (limit - {}) + 64 = {}; sink capacity reserved up front in both runs", dict, m, total, dict - 1, b.peak_heap, dict - 1, allowed), &a, None);
                }
                if i % 17 == 0 {
                    ctx.sample(json!({"scope": name, "dict": dict, "limit": m, "stream": stream, "output_bytes": total, "peak_heap_wrapping": a.peak_heap, "peak_heap_not_wrapping": b.peak_heap}));
                }
            });
            ctx.scope_done(name, items.len() as u64, t0, "peak heap of a wrapping decode vs a decode of dict-1 bytes under the same limit, one-shot and Stream");
        }
    }
    // ---------------------------------------------------------------- header announces 64 MiB dictionary and size: nothing may be set aside beyond the limit
    {
        let name = "public/announced-64MiB/absolute-heap";
        if ctx.may_start(name) {
            let t0 = Instant::now();
            let prog = grow(3000);
            let e = enc::encode(3, 0, 2, 1 << 26, &prog);
            // baseline: what the decoder needs for an empty stream with the same lc/lp/pb (tables, I/O)
            let empty = enc::encode(3, 0, 2, 1 << 26, &[]);
            let c_base = Case::Dec { fmt: Fmt::Lzma, opts: Opts { memlimit: Some(0), ..Opts::default() }, input: Hex(enc::lzma_file(3, 0, 2, 4096, Some(0), &empty.payload)), rd: Rd::default(), sk: Sk::default() };
            let base_heap = run_case(&c_base).peak_heap;
            let mut n = 0u64;
            for declared in [1u64 << 26, u64::MAX - 1] {
                for m in [0u64, 100, 2999, 3000, 4999] {
                    let file = enc::lzma_file(3, 0, 2, 1 << 26, Some(declared), &e.payload);
                    let case = Case::Dec { fmt: Fmt::Lzma, opts: Opts { memlimit: Some(m), ..Opts::default() }, input: Hex(file), rd: Rd::default(), sk: Sk::default() };
                    let o = run_case(&case);
                    n += 1;
                    ctx.eval(1);
                    ctx.nontriv(1);
                    ctx.traces.fetch_add(1, Ordering::Relaxed);
                    // the data ends after 3000 bytes although more is declared: Err either way; what matters is the heap
                    let allowed = base_heap + 2 * (m as usize) + 2 * o.out.0.len() + 4096;
                    if o.v.is_panic() || o.peak_heap > allowed {
                        ctx.violation(&case, &format!("header announces dictionary 2^26 and size {}; with limit {} the decoder's peak heap stays within baseline {} + 2*limit + delivered output (allowed {}), measured {}", declared, m, base_heap, allowed, o.peak_heap), &o, None);
                    }
                }
            }
            ctx.scope_done(name, n, t0, "peak heap measured absolutely against an empty-stream baseline");
        }
    }
    // ---------------------------------------------------------------- streaming decoder, all chunkings
    {
        let name = "stream/all-chunkings/limits-around-need";
        if ctx.may_start(name) {
            let t0 = Instant::now();
            let mut items = Vec::new();
            for total in tier.pick(vec![5usize, 4097], vec![5usize, 40, 4095, 4097, 4200]) {
                let need = total.min(4096) as u64;
                for m in [0u64, need.saturating_sub(1), need, need + 1] {
                    items.push((total, m));
                }
                if total < 100 {
                    // limits beyond 32 bits must behave as "no limit" (a limit squeezed through a u32 would not)
                    for m in [1u64 << 32, (1u64 << 32) + 3, 1u64 << 40, u64::MAX - 1] {
                        items.push((total, m));
                    }
                }
            }
            par_for(items.len() as u64, |i| {
                let (total, m) = items[i as usize];
                let prog = grow(total);
                let e = enc::encode(3, 0, 2, 4096, &prog);
                let (file, opts) = if i % 2 == 0 {
                    (enc::lzma_file(3, 0, 2, 4096, Some(total as u64), &e.payload), Opts { memlimit: Some(m), ..Opts::default() })
                } else {
                    let mut f = enc::lzma_header(3, 0, 2, 4096, None);
                    f.truncate(5);
                    f.extend_from_slice(&e.payload);
                    (f, Opts { memlimit: Some(m), size: crate::cases::SizeOpt::Provided(Some(total as u64)), ..Opts::default() })
                };
                let need = total.min(4096) as u64;
                let g = stream_graph::explore(&ctx, &file, &opts, &stream_graph::Mode::Equivalence, &format!("{} output bytes, limit {} (need {})", total, m, need));
                ctx.eval(g.edges);
                ctx.nontriv(1);
                // the graph check compares with the one-shot decoder; the one-shot verdict itself must follow the limit rule
                let ok = if need <= m { g.oneshot_ok } else { !g.oneshot_ok };
                if !ok {
                    ctx.violation_text(&format!("one-shot verdict under limit {} with need {} is wrong (streaming graph scope)", m, need), json!({"total": total}));
                }
                if g.max_window_buf as u64 > m {
                    ctx.violation_text(&format!("Stream buffered {} bytes of history under limit {}", g.max_window_buf, m), json!({"total": total, "input": crate::common::hex(&file)}));
                }
                ctx.sample(json!({"scope": name, "output_bytes": total, "limit": m, "need": need, "graph_states": g.states, "graph_edges": g.edges, "max_window_bytes_buffered": g.max_window_buf}));
            });
            ctx.scope_done(name, items.len() as u64, t0, "every composition of the input into write() calls, limit around the need");
        }
    }
    ctx.finish()
}

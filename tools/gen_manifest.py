#!/usr/bin/env python3
"""Regenerates /verif/MANIFEST.json (kept in a script so that the 18 entries stay consistent)."""
import json, subprocess
hooks_commits = ["72e60c6", "61a7b06", "f3c159b"]
C = {
 "C01": ("model_checking", "E1 program-space exploration", "every symbol program of prefix-closed spaces setup.Sigma^<=d (11-symbol automaton alphabet over two setups), a length x distance sweep over every length 2..273 and both ends of every distance slot up to 2^20 (2^26 thorough), every wrap-straddling program on dictionaries 1..6 (8), copies across the 4096 wrap with header dictionary 0/1/4095/4096, and all 225 lc/lp/pb settings, encoded by an independent reference encoder and decoded by lzma-rs in six presentations (known size, marker, provided size, 5-byte header, raw decoder with minimal dictionaries); exact output and exact consumption required", "reference encoder/LZ77 interpreter (bound to liblzma in setup); programs deeper than the stated depth and distances above 2^26 are outside the bound", "5.C01"),
 "C02": ("model_checking", "E1 over chunk programs", "every sequence of <= 3 (4) chunk kinds out of 84 (uncompressed with/without dictionary reset; LZMA chunks of every reset class x 4 property sets x 8 programs that depend on carried rep/state/probabilities/dictionary), every ordered pair of the 75 legal lc/lp/pb triples as a property change, the 64 KiB / 2 MiB / control-bit size extremes and chains of 255..512 state-reset chunks, written by the reference LZMA2 writer and decoded by lzma2_decompress, raw::Lzma2Decoder, xz_decompress (dictionary property bytes 0x16 and 40) and into a 3-byte sink", "reference LZMA2/XZ writers bound to liblzma; well-formedness = liblzma's rules", "5.C02"),
 "C03": ("exploration", "E5 configuration grid over a reference writer", "every cell of the container grid (0-3 blocks x 3 check types x optional size fields x 4 header-size classes incl. 1024 x payload length mod 4 x 3 payload kinds) plus true sizes at every multibyte-integer width up to 4 (5) bytes; a grid, not a state space, hence exploration", "reference XZ writer/strict parser bound to liblzma; 6-9 byte encodings of true sizes unreachable (>= 32 GiB blocks)", "5.C03"),
 "C04": ("exploration", "E5 input enumeration x E3 deviation-bounded source fragmentation", "all strings over {00,FF,'a'} up to length 7 (9), all byte strings up to length 2 (3), run-structured inputs on a grid up to 4096, 64 KiB boundary lengths, inputs found by two searches on the reference range encoder (carry through up to 70 pending 0xFF bytes; carry arriving on a 0xFF top byte); every compression option; every source cut set (all 2^(n-1) for n <= 12, else <= 2 cuts + bytewise); sinks accepting 1 or 2 bytes per call; outputs judged by lzma-rs, a strict reference decoder and liblzma", "liblzma as independent conforming decoder; inputs outside the enumerated families are not covered", "5.C04"),
 "C05": ("model_checking", "E2 explicit-state exploration of the real Stream object with exact state merging", "for each corpus input the complete graph of (offset, fingerprint of the whole live decoder state, sink) under write(&x[o..o+k]) for every k: all 2^(n-1) chunkings and all empty writes of that input; finish() probed in every node against the one-shot decoder on x[..offset] (all truncations for free)", "fingerprint hook complete (merges audited whenever dead bytes differ); inputs are a corpus (valid streams of every symbol shape incl. long symbols, substitutions at every position, trailing bytes, liblzma files), the chunking dimension is complete", "5.C05"),
 "C06": ("fault_enumeration", "E5 exhaustive single-fault enumeration with CRC repair", "every single-bit flip, every listed field x value domain with all enclosing CRCs recomputed, every truncation of reference-written files; verdict expected from a strict independent parser", "strict parser encodes exactly the listed checks; multi-field corruptions not enumerated", "5.C06"),
 "C07": ("exploration", "E5 neighbourhood/grid enumeration + E2 stream graphs under panic/hang/heap monitors", "all short payloads after 13 header contexts, every truncation/substitution/splice of the corpus, every XZ field extreme with CRC repair, raw-decoder parameter grids, all Options shapes, and the streaming decoder over every chunking of mutated streams; overflow-checked build", "'every byte string' is covered inside these neighbourhoods and short-string cubes only", "5.C07"),
 "C08": ("exploration", "E5 full options grid", "12 programs x marker x 7 header size values x all option/size combinations (provided sizes n, n-1, n+1, 0, 2^63, 2^64-2, 2^64-1) x trailing x {one-shot from slice / bytewise / 3-byte BufReader, Stream whole, Stream bytewise} x 3 (7) lc/lp/pb, implications only where the statement fixes the outcome; marker reached with an unfinished range coder; second raw-decoder call without marker", "header consumption 13/13/5 is observed through the payload only decoding at the right offset", "5.C08"),
 "C09": ("model_checking", "E4 window state-space closure + E1 invalid programs", "breadth-first closure of the real LzCircularBuffer (dict 1..4 (5), histories <= 2*dict+3 over {a,b}) and LzAccumBuffer (histories <= 8 (10)) with every distance probed in every state against a Vec<u8> model, plus valid-prefix + one out-of-window copy programs through all decoders, and copies at distances below/at/above a memory limit that is below the dictionary size (error or exact data)", "window hooks re-export the real types; larger dictionaries covered only through E1", "5.C09"),
 "C10": ("model_checking", "E4 window closure for every limit + E2 stream graphs + allocator measurement", "every limit m in 0..dict+1 on the closed window state space, raw decoder dict 1..6 (8) x every m, public API around need/4095/4096/4097 and with header dictionary fields below 4096, Stream over all chunkings at need-1/need/need+1, peak-heap bounds (relative, absolute against an empty-stream baseline, and wrapping vs. non-wrapping decode under the same limit)", "Vec growth at most doubles", "5.C10"),
 "C11": ("exploration", "E3 reader kinds x trailers over E1 payload spaces", "every size-bounded LZMA program of the automaton scope up to depth 2 (3) and every LZMA2 sequence up to depth 2 x 5 trailers x reader kinds (slice, BufReader 1..4 (8) and 8192, bytewise, cut); converse for marker-terminated .lzma and .xz", "reader position of BufReader computed as bytes pulled minus bytes still buffered", "5.C11"),
 "C12": ("fault_enumeration", "E3 exhaustive single-fault injection", "every read/fill_buf, write and flush call index of a fault-free run failed once, for 26 (31) targets over all six one-shot entry points and Stream (fed whole and in 7/11/19/64-byte pieces); short-write sinks (1,2,3,7 bytes, every single cut), sinks with their own write_vectored accepting part of a multi-buffer call, and 1-byte sink x every write fault; for Stream the call during which the fault occurs must fail", "single faults only; ErrorKind::Other", "5.C12"),
 "C13": ("exploration", "E3 deviation-bounded fragmentation (deviation = one cut)", "all cut sets with <= 2 (3) cuts, all 2^(n-1) cut sets for n <= 14 (18), bytewise, every period, BufReader capacities 1..64 over ~760 valid/invalid inputs of the three decoders, plus all 1- and 2-cut sets around the 13-byte symbols of an adversarially trained stream; compared with the unfragmented run", "more than 3 cuts on long inputs not enumerated", "5.C13"),
 "C14": ("model_checking", "E2 history graph on the real raw decoders with exact state merging", "BFS over call histories (decompress of 8-10 state-sensitive streams, reset(None), reset(Some(size))) to depth 6 (8) for 3 LZMA parameter sets and to depth 7 (9) for LZMA2, histories of length <= 3 never merged; every post-reset decompress compared with a fresh decoder; post-reset states collapse to one per size; linear reuse histories with reset counts around 2^8, 2^9 and 2^16", "fingerprint covers every decoder field", "5.C14"),
 "C15": ("model_checking", "E2 Stream state graph with allow_incomplete", "prefix and lag invariants evaluated in every node (every prefix x every chunking) of every valid corpus stream incl. long-symbol and window-wrapping streams; lag bound from the reference per-symbol consumption table; window-wrapping streams also into sinks that accept 1/64/1000 bytes per call", "per-symbol table from the reference encoder/decoder", "5.C15"),
 "C16": ("model_checking", "E2 Stream state graph continued past failure/completion", "from every failed node and every size-reached node of the graphs of corrupt / over-long / size-terminated inputs: further writes, flush, get_output, finish", "corpus inputs; chunking dimension complete", "5.C16"),
 "C17": ("exploration", "E5 complete mutation domains judged by a strict reference LZMA2 decoder", "every control byte 0x03..0x7F, every illegal property byte, declared sizes true+-k and true +- bytes produced by earlier chunks, shortened bodies, every truncation, at every chunk of 11 (30+) base sequences incl. zero-cost-symbol chunks; only mutants the reference calls invalid for a listed reason are submitted", "declared compressed size larger than needed is not listed by C17 and not submitted", "5.C17"),
 "C18": ("exploration", "E5 finite feature domains", "all 16 check IDs, every reserved bit, 21 filter IDs alone and ahead of LZMA2, concatenated streams, stream padding on 6 base files (1-3 blocks with content, 1-2 empty blocks, no block), all CRCs correct; every refusal repeated through bytewise and small-buffer readers and, where data follows the first stream, through every BufReader capacity and refill boundaries around its end", "every refusal also through fragmented readers; files with empty blocks and with no block are part of the base set", "5.C18"),
}
# additions of rounds 7-9 (appended to the scope text of each check)
ADD = {
 "C01": "; all 65536 (match byte, literal) pairs; a read_header + raw decoder presentation; four context-polarised walks of 420 symbols per lc/lp/pb setting (every binary decision taken as a hash of its true context index says); long inputs: windows of 64 KiB+1 .. 200000 bytes wrapped three times",
 "C02": "; long inputs: 70 000 (300 000) chunks, chains of 65 535..65 537 state-reset chunks, 5 MiB (17 MiB) in one dictionary then a dictionary reset",
 "C03": "; 40 000 (70 000) blocks, every sequence of <= 3 blocks over content sizes {0, 5, 65535, 65536, 70000}, a declared block of 32 MiB + 1, blocks 600 times larger than their dictionary, all 41 dictionary property bytes",
 "C04": "; block-boundary witnesses of the reference encoder at the 64 KiB mark of the coder output; 2^32-5, 2^32+123457 and 2^35+7 generated bytes through the stored-chunk encoders into a counting sink (index, footer and totals checked); default entry points lzma_compress / compress::Options::default()",
 "C05": "; flush() is an explored edge; long inputs (70 000 literals, 1.2 MB (20 MB) of copies, payloads followed by kilobytes of other data, 44 (stream, dictionary, memory limit) triples) in pieces of 1/7/1279/1280/1281/4096/65535/65536/65537 bytes",
 "C06": "; compensating two-field and structural index mutants, content fields written for a prefix of the payload, the same extreme value in every index record, folding-proof padding patterns, every mutant also through fragmented readers and with every source call failing once with Interrupted; declared sizes of blocks with chained LZMA2 filters",
 "C07": "; windows of 1-4 MiB that wrap, 5 MiB in one dictionary, index records that overflow a 64-bit sum",
 "C08": "; end markers with non-minimal length codes; reset-size histories on the raw decoder",
 "C09": "; later-lap exact-end copies, reuse after reset, a second payload on the same raw decoder without reset (honest and as a defective decoder would need it)",
 "C10": "; growth-by-copies and zero-tail programs under eight ways of applying a limit; limits equal to a 1.3 MB need",
 "C11": "; window-wrapping payloads; size + end marker streams must leave every reader kind at the same position; trailers that are complete .xz streams; every source call failing once with each of four error kinds on inputs with trailing data",
 "C12": "; write faults of kinds Other / WouldBlock / TimedOut, Ok(0) writes, read faults of kinds Interrupted / WouldBlock / TimedOut (a retried Interrupted must give the fault-free result); 64 KiB block-boundary targets; roundtrip validation of fault-free encoder runs",
 "C13": "; long inputs through periods / BufReader capacities around 512, 4096, 8192, 65536; uncompressed chunks > 8 KiB; index integers written in 2, 5, 9 and 10 bytes",
 "C14": "; per-variable training (each distance 1..130, each length, each literal row), every symbol program over {literal, match} up to length 16 (19) before a reset, histories under a memory limit, decompress from fragmenting sources and into a sink whose first write fails, reset counts up to 2^16 incl. lc=5",
 "C15": "; flush at every input offset of window-wrapping streams; gathered writes through write_vectored for every pair of cut points; windows of 1-4 MiB",
 "C16": "; the trait's own write_all and write_vectored on failed streams; sink faults of three kinds latching the stream; corrupt copies after two laps of the window; damage far beyond the first 64 KiB of a single write",
 "C17": "; coordinated size pairs across two chunks, sizes +-65536 on 64 KiB / 128 KiB chunks, a chunk whose payload is exactly 65536 bytes longer than declared, second-stage framing of chained filters",
 "C18": "; filter IDs that fold onto 0x21 under truncation or group-folding, LZMA2 -> other-filter chains (incl. on empty blocks), a later block header with the same CRC32 as the previous one but another filter (CRC32 forged), 5 000 blocks followed by padding / a second stream, every source call failing once with each of four error kinds",
}
ADD2 = {
 "C02": "; more than 64 MiB in one dictionary with a stored chunk straddling the 2^26 mark",
 "C03": "; a 65536-byte compressed chunk inside a block; runs of blocks that agree in one index field and differ in the other; a dictionary-reset LZMA chunk in mid-block",
 "C04": "; sources and sinks that run another encoder on every call (3 x 3 encoders, re-entrancy)",
 "C05": "; the tail of an adversarially trained end marker of 18 input bytes (longest symbol reachable; look-ahead limit 20) under every chunking; one write_vectored call for every pair of cut points of the inputs up to 48 bytes; every Stream call of the graphs runs under a 60 s watchdog",
 "C06": "; index records given a neighbouring record's value; bases whose blocks have equal unpadded sizes and different content sizes",
 "C07": "; 0..2-byte payloads with a provided size followed by other bytes; every Stream call of the graphs under the 60 s watchdog (a call that does not return is a VIOLATION with its op list)",
 "C09": "; dictionaries of 4 MiB + 1 and 5 000 000 (12 345 678) bytes with copies just beyond them",
 "C10": "; streams whose last copy overshoots the declared size, limits between declared and produced",
 "C11": "; payloads of 5, 9 and 20 KB of input with 64-byte trailers; readers cut exactly at the end of an .xz stream",
 "C12": "; fault-free targets with reference output for windows of 1.5 MiB, 1 MiB + 1 and 3 000 000 bytes",
 "C13": "; 4..64 trailing null bytes after an .xz file and the file repeated after them",
 "C14": "; an ill-formed stream whose first copy reaches before its own start, after streams that filled the window; graph edges under the watchdog",
 "C15": "; the 18-byte adversarial end marker's tail under every chunking",
 "C16": "; 0..2-byte payloads whose size is reached inside the bytes buffered with the header",
 "C18": "; reserved block-flag bits in block headers of every size class up to 1024 bytes; filter ID 0x00",
}
# rounds 11-12: new scopes and the deepened bounds (supersede the depths quoted earlier in each text)
ADD3 = {
 "C07": "; decoders, Stream and the encoders into sinks of fixed capacity (Ok(0) for ever once full; capacities around every hand-over point x three write sizes, 336 cases) - a call that does not return is reported by the watchdog",
 "C01": "; bounds as of round 11: automaton alphabet to depth 5 (7) from the 4-literal setup and 4 (5) from the 4-distance setup; an eleventh presentation with a memory limit equal to the dictionary in effect (automaton scope and 4096-wrap scope)",
 "C02": "; a family the format's reference decoder refuses but lzma-rs accepts - an LZMA chunk without properties after a mid-stream dictionary reset - as 544 position-polarised sequences with a uniform-verdict oracle (refused as a whole, or every member decoded exactly with positions counted from the reset); bounds as of round 11: every sequence of <= 3 (4) chunks over 94 kinds and <= 4 (5) over the 34 reduced kinds",
 "C08": "; raw-decoder histories whose first call meets the marker and then fails at the sink (flush / first write) before a marker-less second input; bounds as of round 11: the grid also over every program '4 literals + <= 2 (3) symbols of the automaton alphabet', 5 (12) lc/lp/pb settings",
 "C09": "; bounds as of round 11: circular dictionaries 1..5 (7), accumulating histories <= 10 (13), raw-decoder dictionaries 1..7 (12)",
 "C10": "; bounds as of round 11: circular dictionaries 1..5 (7) x every limit, raw-decoder dictionaries 1..8 (11) x every limit",
 "C11": "; bounds as of round 11: automaton scope to depth 4 (5), BufReader capacities 1..4 (12); payloads whose last symbol is a match at every distance-slot boundary up to 4096 x six length classes x 2 (6) salts",
 "C12": "; encoder targets whose output contains a cached byte plus a run of >= 9 pending 0xFF bytes released at once (carry witnesses of the model-guided search); thorough tier: every call index and every sink cut up to 20 000 bytes, no stride; sinks of fixed capacity (full after c bytes for 17 capacities below the output length: Err, accepted bytes a prefix)",
 "C13": "; stored chunks of 1/2/3/9 bytes in mid-stream (with and without dictionary reset) followed by copies into / one byte before / far before them, by state-inheriting chunks and by an illegal control byte, alone and as XZ blocks",
 "C14": "; bounds as of round 11: call histories to depth 7 (10), symbol-level first streams up to length 17 (21); streams with an illegal properties byte (225, lc 0 / lp 5) over an untouched payload as operations of the LZMA2 history graph",
 "C17": "; bounds as of round 11: every second (every) well-formed 2-chunk sequence over the reduced kinds; thorough also every 2-chunk sequence over the full kinds and every 3-chunk sequence over the reduced kinds (3 613 bases); every size-field mutant and every mutant of up to 40 bytes is also read through a BufReader of every capacity 1..len+1, bytewise and cut in half; property-byte and control-byte mutants are also given twice (reset in between) to a raw Lzma2Decoder that decoded the valid base first",
}
for k_, v_ in ADD3.items():
    ADD[k_] = ADD.get(k_, "") + v_
for k_, v_ in ADD2.items():
    ADD[k_] = ADD[k_] + v_
for k_, v_ in ADD.items():
    lv, te, tx, no, rf = C[k_]
    C[k_] = (lv, te, tx + v_, no, rf)
C["C12"] = C["C12"][:3] + ("single faults only (one failing call per run)",) + C["C12"][4:]
checks = []
for pid in sorted(C):
    level, tech, text, note, ref = C[pid]
    checks.append({
        "property_id": pid,
        "quick_cmd": "./check %s quick" % pid,
        "thorough_cmd": "./check %s thorough" % pid,
        "evidence_file": "/verif/evidence/%s.json" % pid,
        "replay_cmd_template": "./check replay {path}",
        "engine": "lzmc",
        "level_claimed": {"category": level, "text": text + " (thorough-tier bounds in parentheses).", "design_ref": "DESIGN.md §" + ref},
        "level_note": note,
        "technique": "bounded-exhaustive model checking: " + tech,
    })
m = {
 "version": 1,
 "setup_cmd": "cd /verif && ./check build && ./check bind",
 "hooks": {
   "guard": "cargo feature verif_hooks (off by default)",
   "enable": "the harness crate /verif/mc depends on /repo by path with features stream,raw_decoder,verif_hooks; every ./check invocation runs cargo build, which rebuilds lzma-rs from /repo's working tree",
   "baseline_off_cmd": "cd /repo && cargo test --workspace --no-fail-fast --offline",
   "source_commits": hooks_commits,
   "add_only": True,
 },
 "engines": [{"name": "lzmc", "path": "/verif/mc", "serves_properties": sorted(C), "kind_free_text": "purpose-built explicit-state / stateless bounded-exhaustive explorer in Rust running the real lzma-rs code against reference models (E1 program spaces, E2 history/state graphs with exact fingerprint merging, E3 environment deviations, E4 window closure, E5 neighbourhood/grid enumeration)"}],
 "checks": checks,
 "not_applicable": [],
 "notes": "exit 0 = held on everything explored (KNOWN-FINDING lines for listed findings), 1 = VIOLATION line(s), 2 = machinery error (build failure, model not bound, unsound merge, non-deterministic replay) - never a verdict. Known findings: /verif/known_findings.json (none open; six defects fixed). Seeded breakage kept under /verif/seeded/ (sub-agent changes) and /verif/mutants/ (own); each check also has linear long-input scopes (10^5 .. 2*10^7 bytes, reported as their own scopes, no completeness claim).",
}
json.dump(m, open('/verif/MANIFEST.json', 'w'), indent=1)
print("wrote MANIFEST.json with", len(checks), "checks")

fn main(){}

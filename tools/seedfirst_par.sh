#!/bin/bash
# tools/seedfirst_par.sh <src_root> [lanes]
# "First as is" run of new sub-agent changes: for every <src_root>/<Cxx>/patch{1,2}.diff run ALL 18 quick checks of
# the harness exactly as it stands now, in parallel lanes that never touch /repo's working tree (each lane: scratch
# git worktree of /repo HEAD + its own copy of the harness crate pointing at it + its own VERIF_DIR). Writes
# <src_root>/<Cxx>/res<k>/first.json {"mode": "scratch-lanes", "checks": {Cxx: exit code}}. The recorded confirmation
# on /repo itself (git -C /repo apply; ./check; git -C /repo checkout -- .) is tools/seedcheck.sh phase2.
set -u
SRC="$1"; LANES="${2:-5}"
ROOT=/tmp/sv/first
rm -rf "$ROOT"; mkdir -p "$ROOT"
ls "$SRC"/C*/patch[12].diff | sort > "$ROOT/list.txt"
split -n r/$LANES -d "$ROOT/list.txt" "$ROOT/lane."
for lane in $(seq 0 $((LANES-1))); do
  (
    L="$ROOT/l$lane"; mkdir -p "$L/verif/evidence" "$L/verif/replays"
    cp /verif/known_findings.json "$L/verif/"
    git -C /repo worktree add -q --detach "$L/repo" HEAD
    rsync -a --exclude target /verif/mc "$L/"
    sed -i "s#path = \"/repo\"#path = \"$L/repo\"#" "$L/mc/Cargo.toml"
    f=$(printf "$ROOT/lane.%02d" $lane)
    [ -f "$f" ] || exit 0
    while read -r patch; do
      d=$(dirname "$patch"); k=$(basename "$patch" .diff); k=${k#patch}
      out="$d/res$k"; mkdir -p "$out"
      if ! ( cd "$L/repo" && git checkout -q -- . && git apply "$patch" ); then echo '{"mode": "scratch-lanes", "checks": {"apply_failed": 1}}' > "$out/first.json"; continue; fi
      if ! ( cd "$L/mc" && CARGO_NET_OFFLINE=true cargo build --release --offline > "$L/build.log" 2>&1 ); then
        cp "$L/build.log" "$out/first_build.log"; echo '{"mode": "scratch-lanes", "checks": {"build_failed": 2}}' > "$out/first.json"; continue
      fi
      DET=""
      for c in C01 C02 C03 C04 C05 C06 C07 C08 C09 C10 C11 C12 C13 C14 C15 C16 C17 C18; do
        ( cd "$L/mc" && VERIF_BUDGET_S=400 VERIF_DIR="$L/verif" timeout 1800 ./target/release/lzmc $c quick > "$out/first_$c.log" 2>&1 ); rc=$?
        DET="$DET \"$c\": $rc,"
      done
      echo "{\"mode\": \"scratch-lanes\", \"checks\": {${DET%,}}}" > "$out/first.json"
      echo "$patch $(cat "$out/first.json")"
    done < "$f"
    git -C /repo worktree remove --force "$L/repo"
  ) &
done
wait
git -C /repo worktree prune
rm -rf "$ROOT"
echo FIRSTDONE

//! C07 — decoders are total: no panic, no hang, bounded memory on arbitrary bytes (E5 neighbourhoods + grids + E2).
use super::c06;
use super::c13;
use super::stream_graph::{self, Mode};
use crate::cases::{run_case, Case, Fmt, Hex, Obs, Opts, RawOp, Rd, SizeOpt, Sk};
use crate::common::{brief_bytes, Ctx, Tier};
use crate::explore::{count_upto, nth_seq, par_for};
use crate::refmodel::enc::{self, Sym};
use crate::refmodel::lzma2::{self, Chunk};
use crate::refmodel::xz::{self, mbi_n, XzFile};
use serde_json::json;
use std::sync::atomic::Ordering;
use std::time::Instant;

const SLACK: usize = 16 << 20;

/// Totality judgement of one observation.
fn judge(ctx: &Ctx, case: &Case, o: &Obs, label: &dyn Fn() -> String) -> bool {
    ctx.eval(1);
    if o.v.is_panic() || o.ops.iter().any(|x| x.v.is_panic()) {
        ctx.violation(case, &format!("{}: returns Ok or Err, never panics", label()), o, Some(&panic_signature(o)));
        return false;
    }
    let bound = SLACK + 8 * (o.consumed + o.out.0.len());
    if o.peak_heap > bound {
        ctx.violation(case, &format!("{}: peak heap {} <= 16 MiB + 8 x (bytes consumed {} + bytes produced {})", label(), o.peak_heap, o.consumed, o.out.0.len()), o, None);
        return false;
    }
    true
}

fn panic_signature(o: &Obs) -> String {
    let msg = match &o.v {
        crate::cases::V::Panic(m) => m.clone(),
        _ => o.ops.iter().find_map(|x| if let crate::cases::V::Panic(m) = &x.v { Some(m.clone()) } else { None }).unwrap_or_default(),
    };
    format!("C07-panic:{}", msg)
}

fn dec_case(fmt: Fmt, opts: Opts, bytes: Vec<u8>) -> Case {
    // the inert cut forces the harness reader so that bytes consumed are measured on every path
    Case::Dec { fmt, opts, input: Hex(bytes), rd: Rd::default(), sk: Sk::default() }
}

pub fn run(tier: Tier) -> i32 {
    let ctx = Ctx::new("C07", "exploration", tier);
    ctx.set_rule("Monitors on every call: catch_unwind (overflow-checked + debug-assert build; thorough also the wrapping build), a 60 s watchdog, a counting allocator (peak heap <= 16 MiB + 8 x (bytes consumed + produced); a single request >= 6 GiB is reported at once). Enumerations, each complete: (1) after each valid header context, all payloads of length <= 2 over the full alphabet and <= 5 over {00,01,7F,80,FF,5D,E0,21} for LZMA / LZMA2 / the XZ block region (thorough: length 3 full alphabet as whole files); (2) neighbourhoods of the corpus streams/files: every truncation, every single-byte substitution, every splice s[..i]+s[j..]; (3) every XZ field x extreme value with CRC repair, incl. 9/10-byte multibyte integers; (4) raw-decoder parameter grids (lc/lp/pb, dict_size {0,1,2,4095,4096,2^32-1}, memlimit {0,1,4096,MAX}, unpacked size {None,0,1,2^64-1}) and all Options shapes; (5) the streaming decoder over EVERY chunking (state graph) of truncated / substituted streams. distinct_nontrivial = inputs that are not rejected within the first 13 bytes (the payload parser was reached).");
    ctx.assume("a constructor that panics on an asserted, documented precondition (lc > 8, lp > 4, pb > 4) counts as 'parameters not accepted'");
    let seed = ctx.seed;

    // ------------------------------------------------------------------ (1) short strings after header contexts
    {
        let name = "short-strings-after-header-contexts";
        let t0 = Instant::now();
        let small = [0x00u8, 0x01, 0x7F, 0x80, 0xFF, 0x5D, 0xE0, 0x21];
        let n_full = count_upto(256, 2);
        let n_small = count_upto(small.len(), 5);
        // contexts: (fmt, opts, prefix bytes, label)
        let mut ctxs: Vec<(Fmt, Opts, Vec<u8>, String)> = Vec::new();
        for (sz, sl) in [(None, "size unknown"), (Some(0u64), "size 0"), (Some(5), "size 5"), (Some(u64::MAX - 1), "size 2^64-2")] {
            ctxs.push((Fmt::Lzma, Opts::default(), enc::lzma_header(3, 0, 2, 0xFFFF_FFFF, sz), format!("lzma header lc3lp0pb2 dict 2^32-1 {}", sl)));
        }
        ctxs.push((Fmt::Lzma, Opts { size: SizeOpt::Provided(Some(3)), ..Opts::default() }, enc::lzma_header(8, 4, 4, 0, None)[..5].to_vec(), "5-byte lzma header lc8lp4pb4, provided size 3".into()));
        for ml in [1u64 << 26, 1 << 40, u64::MAX - 1] {
            ctxs.push((Fmt::Lzma, Opts { memlimit: Some(ml), ..Opts::default() }, enc::lzma_header(3, 0, 2, 0x7F7F_7F7F, None), format!("lzma header dict 0x7F7F7F7F, memlimit {}", ml)));
        }
        ctxs.push((Fmt::Lzma, Opts::default(), vec![], "no context (whole .lzma file)".into()));
        ctxs.push((Fmt::Lzma2, Opts::default(), vec![], "no context (whole LZMA2 stream)".into()));
        let w = lzma2::write(&[Chunk::C { class: 3, props: (3, 0, 2), prog: vec![Sym::L(1), Sym::L(2), Sym::M(2, 5)] }]);
        ctxs.push((Fmt::Lzma2, Opts::default(), w.bytes[..w.end_off].to_vec(), "after a valid LZMA chunk".into()));
        ctxs.push((Fmt::Lzma2, Opts::default(), vec![0xE0, 0x00, 0x04, 0x00, 0x09, 0x5D], "inside an LZMA chunk header (control E0, sizes, props 5D)".into()));
        ctxs.push((Fmt::Xz, Opts::default(), vec![], "no context (whole .xz file)".into()));
        let hdr = xz::build(&XzFile { check_id: 1, ..Default::default() }).0[..12].to_vec();
        ctxs.push((Fmt::Xz, Opts::default(), hdr.clone(), "after a valid stream header (block header / index region)".into()));
        let f1 = XzFile { check_id: 1, blocks: vec![xz::Block { payload: w.bytes.clone(), plain: w.expect.clone(), ..Default::default() }], ..Default::default() };
        let (b1, sp) = xz::build(&f1);
        let pay = sp.iter().find(|s| s.0 == "block0.payload").unwrap().1;
        ctxs.push((Fmt::Xz, Opts::default(), b1[..pay].to_vec(), "after a valid block header (LZMA2 payload region)".into()));
        let idx = sp.iter().find(|s| s.0 == "index.body").unwrap().1;
        ctxs.push((Fmt::Xz, Opts::default(), b1[..idx].to_vec(), "after a complete block (index region)".into()));
        let per = n_full + n_small;
        par_for(ctxs.len() as u64 * per, |i| {
            let (fmt, opts, prefix, cl) = &ctxs[(i / per) as usize];
            let j = i % per;
            let tail: Vec<u8> = if j < n_full { nth_seq(256, 2, j).iter().map(|&k| k as u8).collect() } else { nth_seq(small.len(), 5, j - n_full).iter().map(|&k| small[k]).collect() };
            let mut b = prefix.clone();
            b.extend_from_slice(&tail);
            let case = dec_case(*fmt, *opts, b);
            let o = run_case(&case);
            if !prefix.is_empty() {
                ctx.nontriv(1);
            }
            judge(&ctx, &case, &o, &|| format!("{:?} decoder, context '{}', payload {}", fmt, cl, brief_bytes(&tail)));
            if i % 500_009 == 0 {
                ctx.sample(json!({"scope": name, "context": cl, "payload": brief_bytes(&tail), "verdict": o.v.class()}));
            }
        });
        ctx.scope_done(name, ctxs.len() as u64 * per, t0, &format!("{} contexts x ({} + {}) payloads", ctxs.len(), n_full, n_small));
        if tier == Tier::Thorough && ctx.may_start("whole-files/len<=3") {
            let t1 = Instant::now();
            let n3 = count_upto(256, 3);
            par_for(n3 * 3, |i| {
                let fmt = [Fmt::Lzma, Fmt::Lzma2, Fmt::Xz][(i % 3) as usize];
                let b: Vec<u8> = nth_seq(256, 3, i / 3).iter().map(|&k| k as u8).collect();
                let case = dec_case(fmt, Opts::default(), b);
                let o = run_case(&case);
                judge(&ctx, &case, &o, &|| format!("{:?} decoder on a 3-byte file", fmt));
            });
            ctx.scope_done("whole-files/len<=3", n3 * 3, t1, "every byte string of length <= 3 as a whole file, 3 decoders");
        }
    }

    // ------------------------------------------------------------------ (2) neighbourhoods
    {
        let name = "neighbourhoods";
        if ctx.may_start(name) {
            let t0 = Instant::now();
            let mut ins: Vec<c13::In> = c13::inputs(seed, Tier::Quick).into_iter().filter(|i| !i.label.contains("truncated") && !i.label.contains("^=") && !i.label.contains("trailing") && !i.label.contains("mutant") && !i.label.contains(" chunk ")).collect();
            // streams whose output is longer than their dictionary (the window wraps under matches)
            for it in super::corpus::valid_items(seed, true) {
                if it.name.starts_with("wraps-4096") {
                    if let Some(b) = it.build(super::corpus::OptKind::Header) {
                        ins.push(c13::In { label: format!("lzma {}", it.name), fmt: Fmt::Lzma, opts: b.opts, bytes: b.bytes });
                    }
                }
            }
            for f in ["hello.txt.xz", "good-1-lzma2-1.xz", "block-check-crc32.txt.xz", "empty.txt.xz"] {
                if let Ok(b) = std::fs::read(format!("/repo/tests/files/{}", f)) {
                    if b.len() <= 700 {
                        ins.push(c13::In { label: format!("repo file {}", f), fmt: Fmt::Xz, opts: Opts::default(), bytes: b });
                    }
                }
            }
            for (f, b) in super::corpus::repo_lzma_files(400) {
                ins.push(c13::In { label: format!("repo file {}", f), fmt: Fmt::Lzma, opts: Opts::default(), bytes: b });
            }
            let full_subst = tier.pick(140usize, 400usize);
            let splice_max = tier.pick(90usize, 330usize);
            let pair_max = tier.pick(0usize, 110usize);
            let cases = std::sync::atomic::AtomicU64::new(0);
            // flatten (input, mutation index) so that work is balanced
            let mut jobs: Vec<(usize, u8, usize)> = Vec::new(); // (input, kind, position)
            for (ii, inp) in ins.iter().enumerate() {
                let n = inp.bytes.len();
                for p in 0..n {
                    jobs.push((ii, 0, p)); // truncation at p + all substitutions at p
                    if n <= splice_max {
                        jobs.push((ii, 1, p)); // all splices starting at p
                    }
                }
            }
            par_for(jobs.len() as u64, |ji| {
                let (ii, kind, p) = jobs[ji as usize];
                let inp = &ins[ii];
                let n = inp.bytes.len();
                let mut local = 0u64;
                let mut run1 = |b: Vec<u8>, what: &dyn Fn() -> String| {
                    let case = dec_case(inp.fmt, inp.opts, b);
                    let o = run_case(&case);
                    local += 1;
                    if o.consumed > 13 {
                        ctx.nontriv(1);
                    }
                    judge(&ctx, &case, &o, &|| format!("{} {}", inp.label, what()));
                };
                if kind == 0 {
                    run1(inp.bytes[..p].to_vec(), &|| format!("truncated to {}", p));
                    let vals: Vec<u8> = if n <= full_subst { (0..=255u8).collect() } else { vec![0x00, 0x01, 0x7F, 0x80, 0xFE, 0xFF, inp.bytes[p] ^ 1, inp.bytes[p] ^ 0x80, inp.bytes[p].wrapping_add(1), inp.bytes[p].wrapping_sub(1), 0x5D, 0xE0, 0x21, 0x02, 0x03, 0x10] };
                    for v in vals {
                        if v != inp.bytes[p] {
                            let mut b = inp.bytes.clone();
                            b[p] = v;
                            run1(b, &|| format!("byte {} := {:#04x}", p, v));
                        }
                    }
                } else {
                    for j in (p + 1)..=n {
                        let mut b = inp.bytes[..p].to_vec();
                        b.extend_from_slice(&inp.bytes[j..]);
                        run1(b, &|| format!("splice [..{}] + [{}..]", p, j));
                    }
                    // duplication
                    let mut b = inp.bytes[..p].to_vec();
                    b.extend_from_slice(&inp.bytes[p / 2..]);
                    run1(b, &|| format!("duplicate [{}..{}]", p / 2, p));
                    // thorough: every pair of positions x 4 x 4 values on short inputs
                    if pair_max >= n {
                        for q in (p + 1)..n {
                            for f1 in 0..4u8 {
                                for f2 in 0..4u8 {
                                    let mutate = |x: u8, f: u8| match f {
                                        0 => 0x00,
                                        1 => 0xFF,
                                        2 => x ^ 0x01,
                                        _ => x ^ 0x80,
                                    };
                                    let mut b = inp.bytes.clone();
                                    b[p] = mutate(b[p], f1);
                                    b[q] = mutate(b[q], f2);
                                    run1(b, &|| format!("bytes {} and {} mutated ({}, {})", p, q, f1, f2));
                                }
                            }
                        }
                    }
                }
                cases.fetch_add(local, Ordering::Relaxed);
            });
            ctx.scope_done(name, cases.load(Ordering::Relaxed), t0, &format!("{} base inputs: every truncation, substitution and splice", ins.len()));
        }
    }

    // ------------------------------------------------------------------ (2b) grammar-generated near-valid LZMA2: every chunk sequence, ill-formed ones included
    {
        let name = "lzma2-chunk-grammar";
        if ctx.may_start(name) {
            let t0 = Instant::now();
            let kinds = super::c02::chunk_kinds(seed, false);
            let depth = 3usize;
            let total = count_upto(kinds.len(), depth);
            par_for(total, |i| {
                let cs: Vec<Chunk> = nth_seq(kinds.len(), depth, i).iter().map(|&k| kinds[k].clone()).collect();
                let w = lzma2::write(&cs);
                // well-formed sequences are C02's subject; here everything the writer can serialise is submitted
                let case = dec_case(Fmt::Lzma2, Opts::default(), w.bytes.clone());
                let o = run_case(&case);
                if w.ill.is_some() {
                    ctx.nontriv(1);
                }
                judge(&ctx, &case, &o, &|| format!("LZMA2 chunk sequence [{}] ({})", lzma2::chunks_str(&cs), w.ill.clone().unwrap_or_else(|| "well-formed".into())));
                // the ill-formed ones also inside an XZ block (the container's own code path into the LZMA2 decoder)
                if w.ill.is_some() && i % 7 == 0 {
                    let f = XzFile { check_id: 0, blocks: vec![xz::Block { payload: w.bytes.clone(), plain: w.expect.clone(), ..Default::default() }], ..Default::default() };
                    let case = dec_case(Fmt::Xz, Opts::default(), xz::build(&f).0);
                    let o = run_case(&case);
                    judge(&ctx, &case, &o, &|| format!("XZ block with LZMA2 chunk sequence [{}]", lzma2::chunks_str(&cs)));
                }
            });
            ctx.scope_done(name, total, t0, "every sequence of <= 3 chunk kinds out of 84, including invalid references, missing resets and missing properties");
        }
    }

    // ------------------------------------------------------------------ (3) XZ field extremes with CRC repair
    {
        let name = "xz-field-extremes";
        if ctx.may_start(name) {
            let t0 = Instant::now();
            let bases = c06::base_files(tier);
            let mut all: Vec<(String, Vec<u8>)> = Vec::new();
            for (bn, f) in &bases {
                for (what, g) in c06::field_mutants(f) {
                    all.push((format!("[{}] {}", bn, what), xz::build(&g).0));
                }
                // 9- and 10-byte multibyte integers in every multibyte position
                for bi in 0..f.blocks.len() {
                    for v in [0u64, 1, 0x7F, 0x80, (1 << 31) - 1, 1 << 31, u32::MAX as u64, 1 << 62, u64::MAX >> 1] {
                        for n in [9usize, 5] {
                            let e = mbi_n(v, n);
                            let mut g = f.clone();
                            g.blocks[bi].with_csize = true;
                            g.blocks[bi].o_csize = Some(e.clone());
                            all.push((format!("[{}] block {} compressed size {} as {}-byte integer", bn, bi, v, n), xz::build(&g).0));
                            let mut g = f.clone();
                            g.blocks[bi].with_usize = true;
                            g.blocks[bi].o_usize = Some(e.clone());
                            all.push((format!("[{}] block {} uncompressed size {} as {}-byte integer", bn, bi, v, n), xz::build(&g).0));
                            let mut g = f.clone();
                            g.blocks[bi].o_filters = Some(vec![(xz::mbi(0x21), e.clone(), vec![0x16])]);
                            all.push((format!("[{}] block {} filter props size {} as {}-byte integer", bn, bi, v, n), xz::build(&g).0));
                        }
                    }
                    let ten: Vec<u8> = vec![0x80, 0x80, 0x80, 0x80, 0x80, 0x80, 0x80, 0x80, 0x80, 0x01];
                    let mut g = f.clone();
                    g.blocks[bi].with_usize = true;
                    g.blocks[bi].o_usize = Some(ten.clone());
                    all.push((format!("[{}] block {} uncompressed size as 10-byte integer", bn, bi), xz::build(&g).0));
                }
                let mut g = f.clone();
                g.o_index_count = Some(mbi_n(u64::MAX >> 1, 9));
                all.push((format!("[{}] index count 2^63-1", bn), xz::build(&g).0));
                let mut g = f.clone();
                g.o_index_count = Some(vec![0x80; 9]);
                all.push((format!("[{}] index count unterminated 9-byte integer", bn), xz::build(&g).0));
            }
            par_for(all.len() as u64, |i| {
                let (what, bytes) = &all[i as usize];
                let case = dec_case(Fmt::Xz, Opts::default(), bytes.clone());
                let o = run_case(&case);
                ctx.nontriv(1);
                judge(&ctx, &case, &o, &|| what.clone());
            });
            ctx.scope_done(name, all.len() as u64, t0, "every field x extreme value, all enclosing CRCs repaired");
        }
    }

    // ------------------------------------------------------------------ (4) parameter grids
    {
        let name = "raw-decoder-parameter-grid";
        if ctx.may_start(name) {
            let t0 = Instant::now();
            let e1 = enc::encode(3, 0, 2, u64::MAX, &[Sym::L(0x41), Sym::L(0x42), Sym::M(2, 6), Sym::S, Sym::E]);
            let payloads: Vec<Vec<u8>> = vec![e1.payload.clone(), vec![], vec![0; 5], vec![0; 40], vec![0xFF; 40], vec![0, 0x80, 0, 0, 0, 0x12, 0x34, 0x56, 0x78, 0x9A, 0xBC], (0..64u32).map(|i| (i.wrapping_mul(2654435761) >> 24) as u8).collect()];
            let mut items = Vec::new();
            for lc in 0..=9u32 {
                for lp in 0..=5u32 {
                    for pb in 0..=5u32 {
                        if (lc > 4 || lp > 2 || pb > 2) && !(lc >= 8 || lp >= 4 || pb >= 4) && (lc + lp + pb) % 3 != 0 {
                            continue; // thin out the interior, keep all boundary values
                        }
                        for dict in [0u32, 1, 2, 4095, 4096, u32::MAX] {
                            for ml in [Some(0u64), Some(1), Some(4096), None] {
                                for sz in [None, Some(0u64), Some(1), Some(u64::MAX)] {
                                    items.push((lc, lp, pb, dict, ml, sz));
                                }
                            }
                        }
                    }
                }
            }
            par_for(items.len() as u64, |i| {
                let (lc, lp, pb, dict, ml, sz) = items[i as usize];
                for (pi, p) in payloads.iter().enumerate() {
                    // decompress, decompress again WITHOUT reset (state left by the first stream, e.g. after an end
                    // marker), reset, decompress
                    let case = Case::RawLzma { lc, lp, pb, dict, size: sz, memlimit: ml, ops: vec![RawOp::Dec(Hex(p.clone())), RawOp::Dec(Hex(p.clone())), RawOp::Reset, RawOp::Dec(Hex(p.clone()))] };
                    let o = run_case(&case);
                    // constructor precondition: asserted limits on lc/lp/pb
                    if o.ops.is_empty() && o.v.is_panic() && (lc > 8 || lp > 4 || pb > 4) {
                        ctx.skipped.fetch_add(1, Ordering::Relaxed);
                        break;
                    }
                    ctx.nontriv(1);
                    judge(&ctx, &case, &o, &|| format!("raw::LzmaDecoder lc={} lp={} pb={} dict_size={} memlimit={:?} unpacked_size={:?} payload #{}", lc, lp, pb, dict, ml, sz, pi));
                }
            });
            // valid programs on tiny dictionaries (copies whose source or destination straddles the wrap point)
            {
                let mut progs: Vec<(u32, Vec<Sym>)> = Vec::new();
                for n in 2..=7u32 {
                    for j in 1..=(n + 3) {
                        for d in 1..=n.min(j) {
                            for l in [2u32, n - 1, n, n + 1, 2 * n + 1] {
                                if l < 2 {
                                    continue;
                                }
                                let mut p: Vec<Sym> = (0..2 * n + j).map(|i| Sym::L((0x41 + i) as u8)).collect();
                                p.push(Sym::M(d, l));
                                p.push(Sym::M(n.min(2 * n + j), 3));
                                p.push(Sym::L(1));
                                progs.push((n, p));
                            }
                        }
                    }
                }
                par_for(progs.len() as u64, |i| {
                    let (n, p) = &progs[i as usize];
                    let e = enc::encode(3, 0, 2, *n as u64, p);
                    if e.bad.is_some() {
                        return;
                    }
                    for sz in [Some(e.expect.len() as u64), None] {
                        let case = Case::RawLzma { lc: 3, lp: 0, pb: 2, dict: *n, size: sz, memlimit: None, ops: vec![RawOp::Dec(Hex(e.payload.clone()))] };
                        let o = run_case(&case);
                        ctx.nontriv(1);
                        judge(&ctx, &case, &o, &|| format!("raw::LzmaDecoder dict_size={} on a valid {}-symbol program with copies around the wrap point", n, p.len()));
                    }
                });
            }
            // all Options shapes on the public LZMA decoder
            let file = enc::lzma_file(3, 0, 2, 1, None, &e1.payload);
            let mut n_opts = 0u64;
            for size in [SizeOpt::Header, SizeOpt::HeaderProvided(None), SizeOpt::HeaderProvided(Some(0)), SizeOpt::HeaderProvided(Some(u64::MAX)), SizeOpt::Provided(None), SizeOpt::Provided(Some(0)), SizeOpt::Provided(Some(u64::MAX))] {
                for ml in [None, Some(0u64), Some(1), Some(u64::MAX)] {
                    for ai in [false, true] {
                        for cut in [file.len(), 13, 12, 5, 4, 0, 18, 17] {
                            let opts = Opts { size, memlimit: ml, allow_incomplete: ai };
                            let case = dec_case(Fmt::Lzma, opts, file[..cut.min(file.len())].to_vec());
                            let o = run_case(&case);
                            n_opts += 1;
                            judge(&ctx, &case, &o, &|| format!("lzma_decompress_with_options {:?} on the first {} bytes", opts, cut));
                        }
                    }
                }
            }
            ctx.scope_done(name, items.len() as u64 * payloads.len() as u64 + n_opts, t0, "constructor-accepted parameters x payloads (decompress, reset, decompress) + all Options shapes");
        }
    }

    // ------------------------------------------------------------------ (5) streaming decoder, every chunking
    {
        let name = "stream-all-chunkings";
        if ctx.may_start(name) {
            let t0 = Instant::now();
            let all = super::c05::inputs(seed, Tier::Quick);
            let step = tier.pick(5usize, 1usize);
            let sel: Vec<&super::c05::Input> = all.iter().enumerate().filter(|(ix, i)| i.label.contains("trailing") || (i.label.contains(" byte ") && ix % step == 0)).map(|(_, i)| i).collect();
            let mut extra: Vec<(String, Vec<u8>, Opts)> = Vec::new();
            for b in [vec![0u8; 40], vec![0xFF; 40], (0..60u32).map(|i| (i.wrapping_mul(2654435761) >> 24) as u8).collect::<Vec<u8>>()] {
                let mut x = enc::lzma_header(3, 0, 2, 0xFFFF_FFFF, None);
                x.extend_from_slice(&b);
                extra.push(("header + garbage".into(), x.clone(), Opts::default()));
                extra.push(("header + garbage, allow_incomplete, memlimit 3".into(), x, Opts { allow_incomplete: true, memlimit: Some(3), ..Opts::default() }));
            }
            // payloads of 0..2 bytes whose size is provided (5-byte header) or announced, followed by a few other bytes:
            // the payload ends inside whatever the decoder buffered together with the header
            for n in 0..3usize {
                let prog: Vec<Sym> = (0..n).map(|i| Sym::L(0x61 + i as u8)).collect();
                let e = enc::encode(3, 0, 2, u64::MAX, &prog);
                for tr in [vec![], vec![0u8], vec![0xFF; 2], vec![0u8; 5], vec![0x5D, 0, 0, 0x10, 0, 1, 2, 3], vec![7u8; 14]] {
                    let mut x5 = enc::lzma_header(3, 0, 2, 4096, None);
                    x5.truncate(5);
                    x5.extend_from_slice(&e.payload);
                    x5.extend_from_slice(&tr);
                    extra.push((format!("{}-byte payload, size provided (5-byte header), {} further byte(s)", n, tr.len()), x5, Opts { size: SizeOpt::Provided(Some(n as u64)), ..Opts::default() }));
                    let mut x13 = enc::lzma_file(3, 0, 2, 4096, Some(n as u64), &e.payload);
                    x13.extend_from_slice(&tr);
                    extra.push((format!("{}-byte payload, size in header, {} further byte(s)", n, tr.len()), x13.clone(), Opts::default()));
                    extra.push((format!("{}-byte payload, size in header and provided, {} further byte(s)", n, tr.len()), x13, Opts { size: SizeOpt::HeaderProvided(Some(n as u64)), ..Opts::default() }));
                }
            }
            let total = sel.len() + extra.len();
            let agg = std::sync::Mutex::new((0u64, 0u64));
            par_for(total as u64, |i| {
                if ctx.over_budget() {
                    ctx.capped.store(true, Ordering::SeqCst);
                    return;
                }
                let (label, bytes, opts) = if (i as usize) < sel.len() { (sel[i as usize].label.clone(), sel[i as usize].bytes.clone(), sel[i as usize].opts) } else { extra[i as usize - sel.len()].clone() };
                let g = stream_graph::explore(&ctx, &bytes, &opts, &Mode::Total, &label);
                ctx.eval(g.edges);
                ctx.nontriv(1);
                let mut a = agg.lock().unwrap();
                a.0 += g.states;
                a.1 += g.edges;
            });
            let a = agg.lock().unwrap();
            ctx.scope_done(name, total as u64, t0, &format!("{} states, {} write edges + finish probes, none may panic", a.0, a.1));
        }
    }
    // ------------------------------------------------------------------ decoders inside decoders: a source that unpacks an inner layer at
    // every call (a sink that unpacks something whenever it is written to) on the same thread, as a reader of layered
    // containers does. Nothing may panic; the outer call answers as it does for a plain source and sink.
    {
        let name = "nested-decoders";
        if ctx.may_start(name) {
            use std::io::{self, BufRead, Read, Write};
            let t0 = Instant::now();
            let prog = vec![Sym::L(0x61), Sym::L(0x62), Sym::L(0x63), Sym::M(2, 5), Sym::S, Sym::L(0x64)];
            let e = enc::encode(3, 0, 2, u64::MAX, &prog);
            let f_lzma = enc::lzma_file(3, 0, 2, 4096, Some(e.expect.len() as u64), &e.payload);
            let w2 = lzma2::write(&[Chunk::U { reset: true, data: b"stored".to_vec() }, Chunk::C { class: 2, props: (3, 0, 2), prog: vec![Sym::M(3, 4), Sym::L(0x21)] }, Chunk::U { reset: false, data: b"xy".to_vec() }]);
            let f_xz = xz::build(&XzFile { check_id: 1, blocks: vec![xz::Block { payload: w2.bytes.clone(), plain: w2.expect.clone(), ..Default::default() }], ..Default::default() }).0;
            let mut bad_lzma2 = w2.bytes.clone();
            bad_lzma2.truncate(bad_lzma2.len() - 3);
            let files: Vec<(&str, u8, Vec<u8>)> = vec![("lzma", 0, f_lzma.clone()), ("lzma2", 1, w2.bytes.clone()), ("xz", 2, f_xz.clone()), ("truncated lzma2", 1, bad_lzma2)];
            fn run_dec(kind: u8, r: &mut dyn BufRead, w: &mut dyn Write) -> Result<(), String> {
                let mut r = r;
                let mut w = w;
                match kind {
                    0 => lzma_rs::lzma_decompress(&mut r, &mut w).map_err(|e| e.to_string()),
                    1 => lzma_rs::lzma2_decompress(&mut r, &mut w).map_err(|e| e.to_string()),
                    _ => lzma_rs::xz_decompress(&mut r, &mut w).map_err(|e| e.to_string()),
                }
            }
            struct NRd<'a> {
                data: &'a [u8],
                pos: usize,
                piece: usize,
                inner: (u8, &'a [u8]),
                inner_want: (bool, Vec<u8>),
                inner_ok: bool,
                nest: bool,
            }
            impl<'a> NRd<'a> {
                fn poke(&mut self) {
                    if self.nest {
                        let mut out = Vec::new();
                        let mut src: &[u8] = self.inner.1;
                        let r = run_dec(self.inner.0, &mut src, &mut out);
                        if r.is_ok() != self.inner_want.0 || (r.is_ok() && out != self.inner_want.1) {
                            self.inner_ok = false;
                        }
                    }
                }
            }
            impl<'a> Read for NRd<'a> {
                fn read(&mut self, b: &mut [u8]) -> io::Result<usize> {
                    self.poke();
                    let n = b.len().min(self.piece).min(self.data.len() - self.pos);
                    b[..n].copy_from_slice(&self.data[self.pos..self.pos + n]);
                    self.pos += n;
                    Ok(n)
                }
            }
            impl<'a> BufRead for NRd<'a> {
                fn fill_buf(&mut self) -> io::Result<&[u8]> {
                    self.poke();
                    let n = self.piece.min(self.data.len() - self.pos);
                    Ok(&self.data[self.pos..self.pos + n])
                }
                fn consume(&mut self, n: usize) {
                    self.pos += n;
                }
            }
            struct NWr<'a> {
                out: Vec<u8>,
                inner: (u8, &'a [u8]),
                inner_want: (bool, Vec<u8>),
                inner_ok: bool,
                nest: bool,
            }
            impl<'a> Write for NWr<'a> {
                fn write(&mut self, b: &[u8]) -> io::Result<usize> {
                    if self.nest {
                        let mut out = Vec::new();
                        let mut src: &[u8] = self.inner.1;
                        let r = run_dec(self.inner.0, &mut src, &mut out);
                        if r.is_ok() != self.inner_want.0 || (r.is_ok() && out != self.inner_want.1) {
                            self.inner_ok = false;
                        }
                    }
                    self.out.extend_from_slice(b);
                    Ok(b.len())
                }
                fn flush(&mut self) -> io::Result<()> {
                    Ok(())
                }
            }
            let mut n = 0u64;
            for (on, ok_, ofile) in &files {
                for (inn, ik, ifile) in &files {
                    let inner_want = {
                        let mut out = Vec::new();
                        let mut src: &[u8] = ifile;
                        let r = run_dec(*ik, &mut src, &mut out);
                        (r.is_ok(), out)
                    };
                    for piece in [1usize, 5, usize::MAX] {
                        let base = {
                            let mut rd = NRd { data: ofile, pos: 0, piece, inner: (*ik, ifile), inner_want: inner_want.clone(), inner_ok: true, nest: false };
                            let mut wr = NWr { out: Vec::new(), inner: (*ik, ifile), inner_want: inner_want.clone(), inner_ok: true, nest: false };
                            let r = run_dec(*ok_, &mut rd, &mut wr);
                            (r.is_ok(), wr.out)
                        };
                        for side in 0..3u8 {
                            n += 1;
                            ctx.eval(1);
                            ctx.nontriv(1);
                            crate::cases::IN_GUARD.with(|g| g.set(true));
                            let res = std::panic::catch_unwind(std::panic::AssertUnwindSafe(|| {
                                let mut rd = NRd { data: ofile, pos: 0, piece, inner: (*ik, ifile), inner_want: inner_want.clone(), inner_ok: true, nest: side != 1 };
                                let mut wr = NWr { out: Vec::new(), inner: (*ik, ifile), inner_want: inner_want.clone(), inner_ok: true, nest: side != 0 };
                                let r = run_dec(*ok_, &mut rd, &mut wr);
                                (r.is_ok(), wr.out, rd.inner_ok && wr.inner_ok)
                            }));
                            crate::cases::IN_GUARD.with(|g| g.set(false));
                            let problem = match res {
                                Err(_) => Some("panicked".to_string()),
                                Ok((ok, out, inner_ok)) => {
                                    if ok != base.0 || (ok && out != base.1) {
                                        Some(format!("the outer call answers differently ({}, {} bytes) than for the same source and sink without nested calls ({}, {} bytes)", if ok { "Ok" } else { "Err" }, out.len(), if base.0 { "Ok" } else { "Err" }, base.1.len()))
                                    } else if !inner_ok {
                                        Some("an inner call answered differently than it does alone".into())
                                    } else {
                                        None
                                    }
                                }
                            };
                            if let Some(pb) = problem {
                                ctx.violation_text(&format!("{} decoder on a {}-byte input whose {} run(s) the {} decoder at every call (pieces of {}): {}", on, ofile.len(), ["source", "sink", "source and sink"][side as usize], inn, if piece == usize::MAX { "unlimited size".to_string() } else { format!("{} bytes", piece) }, pb), json!({"outer": on, "inner": inn, "side": side, "piece": piece as u64}));
                            }
                        }
                    }
                }
            }
            ctx.scope_done(name, n, t0, "4 outer x 4 inner inputs (lzma, lzma2, xz, truncated lzma2) x 3 piece sizes, nested through the source, the sink, and both");
        }
    }
    // ------------------------------------------------------------------ (6) long inputs: megabytes through windows larger than 1 MiB,
    // blocks far larger than their dictionary, truncations and single substitutions of them (nothing may panic or hang)
    {
        let name = "long-inputs";
        if ctx.may_start(name) {
            use crate::cases::SOp;
            let t0 = Instant::now();
            let mut items: Vec<(String, Case)> = Vec::new();
            let dict = 0x18_0000u32;
            let mut prog: Vec<Sym> = (0..600u32).map(|b| Sym::L(((b * 67 + b / 7 + 3) & 0xFF) as u8)).collect();
            let mut produced = 600usize;
            let total = 2 * dict as usize + 4321;
            let mut k = 0u32;
            while produced < total {
                let l = (total - produced).min(273 - (k as usize * 13) % 100).max(2);
                if total - produced >= 2 {
                    prog.push(Sym::M(if k % 3 == 0 { (produced.min(dict as usize) as u32).saturating_sub(1 + (k * 97) % 500).max(1) } else { 1 + (k * 31) % 590 }, l as u32));
                    produced += l;
                } else {
                    prog.push(Sym::L(k as u8));
                    produced += 1;
                }
                k += 1;
            }
            let e = enc::encode(3, 0, 2, dict as u64, &prog);
            let file = enc::lzma_file(3, 0, 2, dict, Some(e.expect.len() as u64), &e.payload);
            let n = file.len();
            for (what, bytes) in [("whole", file.clone()), ("cut in the middle", file[..n / 2].to_vec()), ("cut 3 bytes before the end", file[..n - 3].to_vec()), ("byte n/2 ^= 0x40", { let mut m = file.clone(); m[n / 2] ^= 0x40; m }), ("byte n-9 ^= 0x01", { let mut m = file.clone(); m[n - 9] ^= 0x01; m })] {
                items.push((format!("lzma {} bytes through a {}-byte window, {}", e.expect.len(), dict, what), Case::Dec { fmt: Fmt::Lzma, opts: Opts::default(), input: Hex(bytes.clone()), rd: Rd::default(), sk: Sk::default() }));
                let mut ops: Vec<SOp> = bytes.chunks(65536).map(|c| SOp::WriteAll(Hex(c.to_vec()))).collect();
                ops.push(SOp::Finish);
                items.push((format!("Stream, 64 KiB writes: lzma {} bytes through a {}-byte window, {}", e.expect.len(), dict, what), Case::Stream { opts: Opts::default(), sk: Sk::default(), ops }));
            }
            for (prop, nbytes) in [(0u8, 2_600_000usize), (16, 4_300_000)] {
                let blob: Vec<u8> = (0..nbytes as u32).map(|k| (k.wrapping_mul(2246822519) >> 19) as u8).collect();
                let mut cs: Vec<Chunk> = blob.chunks(65536).enumerate().map(|(k, c)| Chunk::U { reset: k == 0, data: c.to_vec() }).collect();
                cs.push(Chunk::C { class: 2, props: (3, 0, 2), prog: vec![Sym::M(3, 50), Sym::L(7)] });
                let w = lzma2::write(&cs);
                items.push((format!("lzma2 {} bytes in {} chunks, one dictionary", w.expect.len(), cs.len()), Case::Dec { fmt: Fmt::Lzma2, opts: Opts::default(), input: Hex(w.bytes.clone()), rd: Rd::default(), sk: Sk::default() }));
                let f = XzFile { check_id: 1, blocks: vec![xz::Block { payload: w.bytes.clone(), plain: w.expect.clone(), o_filters: Some(vec![(xz::mbi(0x21), xz::mbi(1), vec![prop])]), ..Default::default() }], ..Default::default() };
                let xb = xz::build(&f).0;
                items.push((format!("xz block of {} bytes, dictionary property byte {}", w.expect.len(), prop), Case::Dec { fmt: Fmt::Xz, opts: Opts::default(), input: Hex(xb.clone()), rd: Rd::default(), sk: Sk::default() }));
                items.push((format!("xz block of {} bytes, dictionary property byte {}, cut 40 bytes before the end", w.expect.len(), prop), Case::Dec { fmt: Fmt::Xz, opts: Opts::default(), input: Hex(xb[..xb.len() - 40].to_vec()), rd: Rd::default(), sk: Sk::default() }));
            }
            par_for(items.len() as u64, |i| {
                let (label, case) = &items[i as usize];
                let o = run_case(case);
                ctx.eval(1);
                ctx.nontriv(1);
                if o.v.is_panic() || o.ops.iter().any(|r| r.v.is_panic()) {
                    ctx.violation(case, &format!("{}: returns Ok or Err, never panics", label), &o, None);
                }
            });
            ctx.scope_done(name, items.len() as u64, t0, "megabyte-sized valid streams, truncated and corrupted variants");
        }
    }
    // ---------------------------------------------------------------- sinks of fixed capacity (Ok(0) for ever once they are full)
    // `&mut [u8]` and a full pipe behave like this. Whatever the decoder or encoder does with Ok(0), it must return: a flush
    // loop that retries "until everything is written" never does. Capacities around every place where output is handed over
    // (window wrap by a literal and by a match, dictionary reset, chunk and block ends, the final flush).
    {
        let name = "sinks-of-fixed-capacity";
        if ctx.may_start(name) {
            let t0 = Instant::now();
            let mut items: Vec<(String, Case)> = Vec::new();
            let lit = |n: u32| -> Vec<Sym> { (0..n).map(|i| Sym::L((i * 37 + i / 7 + 1) as u8)).collect() };
            let mut inputs: Vec<(String, Fmt, Opts, Vec<u8>, usize)> = Vec::new();
            {
                // window of 4096 filled by literals, wrap by a literal
                let p = lit(4200);
                let e = enc::encode(3, 0, 2, 4096, &p);
                inputs.push(("lzma 4200 literals, dictionary 4096".into(), Fmt::Lzma, Opts::default(), enc::lzma_file(3, 0, 2, 4096, Some(e.expect.len() as u64), &e.payload), e.expect.len()));
                // wrap inside a match
                let mut p = lit(4090);
                p.extend([Sym::M(100, 40), Sym::L(7), Sym::M(4096, 30)]);
                let e = enc::encode(3, 0, 2, 4096, &p);
                inputs.push(("lzma 4090 literals then copies across the wrap, marker".into(), Fmt::Lzma, Opts::default(), {
                    let mut q = p.clone();
                    q.push(Sym::E);
                    let e2 = enc::encode(3, 0, 2, 4096, &q);
                    enc::lzma_file(3, 0, 2, 4096, None, &e2.payload)
                }, e.expect.len()));
                let w = lzma2::write(&[Chunk::C { class: 3, props: (3, 0, 2), prog: lit(300) }, Chunk::U { reset: true, data: vec![9; 100] }, Chunk::C { class: 2, props: (0, 0, 0), prog: vec![Sym::M(50, 60), Sym::L(1)] }]);
                inputs.push(("lzma2 three chunks with a dictionary reset".into(), Fmt::Lzma2, Opts::default(), w.bytes.clone(), w.expect.len()));
                let f = XzFile { check_id: 1, blocks: vec![xz::Block { payload: w.bytes.clone(), plain: w.expect.clone(), ..Default::default() }, xz::Block { payload: w.bytes.clone(), plain: w.expect.clone(), ..Default::default() }], ..Default::default() };
                inputs.push(("xz two blocks".into(), Fmt::Xz, Opts::default(), xz::build(&f).0, 2 * w.expect.len()));
            }
            for (label, fmt, opts, bytes, n) in &inputs {
                let mut caps: Vec<usize> = vec![0, 1, 2, 99, 100, 299, 300, 301, 400, 401, 4095, 4096, 4097, 4129, 4130, 4131, n / 2, n.saturating_sub(1), *n];
                caps.retain(|c| *c <= *n);
                caps.sort_unstable();
                caps.dedup();
                for cap in caps {
                    for chunk in [0usize, 1, 7] {
                        let sk = Sk { full_after: Some(cap), chunk, ..Sk::default() };
                        items.push((format!("{} into a sink that is full after {} bytes ({} per write)", label, cap, if chunk == 0 { "any number".to_string() } else { chunk.to_string() }), Case::Dec { fmt: *fmt, opts: *opts, input: Hex(bytes.clone()), rd: Rd::default(), sk: sk.clone() }));
                        if *fmt == Fmt::Lzma {
                            items.push((format!("Stream: {} into a sink that is full after {} bytes", label, cap), Case::Stream { opts: *opts, sk, ops: vec![crate::cases::SOp::WriteAll(Hex(bytes.clone())), crate::cases::SOp::Flush, crate::cases::SOp::Finish] }));
                        }
                    }
                }
            }
            // encoders into full sinks
            let data: Vec<u8> = (0..70_000u32).map(|i| (i.wrapping_mul(2654435761) >> 21) as u8).collect();
            for fmt in [Fmt::Lzma, Fmt::Lzma2, Fmt::Xz] {
                for cap in [0usize, 1, 5, 12, 13, 14, 24, 65536, 65550, 70_000] {
                    items.push((format!("{:?} compress 70000 bytes into a sink that is full after {} bytes", fmt, cap), Case::Enc { fmt, size: crate::cases::EncSize::HeaderNone, input: Hex(data.clone()), rd: Rd::default(), sk: Sk { full_after: Some(cap), ..Sk::default() } }));
                }
            }
            par_for(items.len() as u64, |i| {
                let (label, case) = &items[i as usize];
                let o = run_case(case);
                ctx.eval(1);
                ctx.nontriv(1);
                if o.v.is_panic() || o.ops.iter().any(|r| r.v.is_panic()) {
                    ctx.violation(case, &format!("{}: returns Ok or Err, never panics (a call that does not return is reported by the watchdog)", label), &o, None);
                }
            });
            ctx.scope_done(name, items.len() as u64, t0, "decoders, Stream and encoders into sinks that stop accepting bytes");
        }
    }
    ctx.finish()
}

#!/bin/bash
# tools/mutants_baseline.sh [lanes]  — for every /verif/mutants/*.patch: scratch worktree (outside /repo and /verif),
# apply, run the repository's 59-test baseline with the hook feature off; record passed/failed counts in
# /verif/mutants/baseline_results.json. Lanes run in parallel with separate target dirs; nothing touches /repo's tree.
set -u
LANES="${1:-4}"
mkdir -p /tmp/sv/mb
ls /verif/mutants/*.patch | sort > /tmp/sv/mb/all.txt
split -n l/$LANES -d /tmp/sv/mb/all.txt /tmp/sv/mb/lane.
for lane in $(seq 0 $((LANES-1))); do
  (
    f=$(printf "/tmp/sv/mb/lane.%02d" $lane)
    while read -r patch; do
      name=$(basename "$patch" .patch)
      wt="/tmp/sv/mb/wt-$lane"
      git -C /repo worktree add -q --detach "$wt" HEAD
      ( cd "$wt" && git apply "$patch" && CARGO_TARGET_DIR=/tmp/sv/target-$lane cargo test --workspace --no-fail-fast --offline > /tmp/sv/mb/$name.log 2>&1 )
      p=$(grep -E "^test result" /tmp/sv/mb/$name.log | sed -E 's/.* ([0-9]+) passed.*/\1/' | paste -sd+ | bc)
      fl=$(grep -E "^test result" /tmp/sv/mb/$name.log | sed -E 's/.* ([0-9]+) failed.*/\1/' | paste -sd+ | bc)
      echo "$name ${p:-0} ${fl:-999}" >> /tmp/sv/mb/results.$lane
      git -C /repo worktree remove --force "$wt"
    done < "$f"
  ) &
done
wait
python3 - <<'PY'
import glob, json
r = {}
for f in glob.glob('/tmp/sv/mb/results.*'):
    for l in open(f):
        n, p, fl = l.split()
        r[n] = {"passed": int(p), "failed": int(fl)}
json.dump(r, open('/verif/mutants/baseline_results.json', 'w'), indent=1, sort_keys=True)
bad = [n for n, v in r.items() if v["passed"] != 59 or v["failed"] != 0]
print("baseline: %d mutants, %d do not keep the 59-test suite green: %s" % (len(r), len(bad), bad))
PY

//! C12 — I/O failures propagate as errors and never corrupt what was already written (E3 fault enumeration).
use super::c10::grow;
use crate::cases::{run_case, Case, EncSize, Fmt, Hex, Obs, Opts, Rd, SOp, Sk};
use crate::common::{Ctx, Tier};
use crate::explore::par_for;
use crate::refmodel::enc::{self, Sym};
use crate::refmodel::lzma2::{self, Chunk};
use crate::refmodel::xz::{self, Block, XzFile};
use serde_json::json;
use std::sync::atomic::Ordering;
use std::time::Instant;

#[derive(Clone)]
struct Target {
    label: String,
    base: Case,
    /// decoder whose final flush is part of the property
    must_flush: bool,
    /// (decoder targets) what the fault-free run must deliver, when the reference encoder knows it
    expect: Option<Vec<u8>>,
}

fn with_env(c: &Case, rd: &Rd, sk: &Sk) -> Case {
    match c {
        Case::Dec { fmt, opts, input, .. } => Case::Dec { fmt: *fmt, opts: *opts, input: input.clone(), rd: rd.clone(), sk: sk.clone() },
        Case::Enc { fmt, size, input, .. } => Case::Enc { fmt: *fmt, size: *size, input: input.clone(), rd: rd.clone(), sk: sk.clone() },
        Case::Stream { opts, ops, .. } => Case::Stream { opts: *opts, sk: sk.clone(), ops: ops.clone() },
        _ => unreachable!(),
    }
}

fn targets(tier: Tier) -> Vec<Target> {
    let mut t = Vec::new();
    let inert = Rd { cuts: vec![usize::MAX], ..Rd::default() }; // forces the harness reader (call counting) without cutting anything
    let dec = |label: &str, fmt: Fmt, input: Vec<u8>, must_flush: bool| Target {
        label: label.to_string(),
        base: Case::Dec { fmt, opts: Opts::default(), input: Hex(input), rd: inert.clone(), sk: Sk::default() },
        must_flush,
        expect: None,
    };
    // ---- LZMA decoder inputs
    let e = enc::encode(3, 0, 2, u64::MAX, &[Sym::L(1), Sym::L(2), Sym::M(2, 9), Sym::S, Sym::E]);
    t.push(dec("lzma_decompress small + marker", Fmt::Lzma, enc::lzma_file(3, 0, 2, 4096, None, &e.payload), true));
    let e = enc::encode(3, 0, 2, u64::MAX, &[]);
    t.push(dec("lzma_decompress empty, size 0", Fmt::Lzma, enc::lzma_file(3, 0, 2, 4096, Some(0), &e.payload), true));
    let big = tier.pick(9000usize, 13000usize);
    let e = enc::encode(3, 0, 2, 4096, &grow(big));
    t.push(dec(&format!("lzma_decompress {} bytes through a 4096-byte window (window flushed more than once)", big), Fmt::Lzma, enc::lzma_file(3, 0, 2, 4096, Some(big as u64), &e.payload), true));
    {
        // 3896 varied bytes, then a non-overlapping match M(200,200) ending exactly at 4096; the same again at 8192
        let mut p = grow(3896);
        p.push(Sym::M(200, 200));
        p.extend(grow(3896).into_iter().map(|s| if let Sym::L(b) = s { Sym::L(b ^ 0x55) } else { s }));
        p.push(Sym::M(200, 200));
        p.push(Sym::L(7));
        let e = enc::encode(3, 0, 2, 4096, &p);
        assert!(e.bad.is_none() && e.expect.len() == 8193);
        t.push(dec("lzma_decompress: non-overlapping matches ending exactly at the 4096 and 8192 window boundaries", Fmt::Lzma, enc::lzma_file(3, 0, 2, 4096, Some(8193), &e.payload), true));
    }
    // ---- windows above 1 MiB that are not a whole number of MiB, wrapped once and a half: "on success every output byte has
    // been handed to the sink" (fault-free runs only: thousands of calls)
    for dict in [0x18_0000u32, 0x10_0001, 3_000_000] {
        let total = dict as usize + dict as usize / 2 + 777;
        let mut prog: Vec<Sym> = (0..300u32).map(|b| Sym::L((b * 67 + b / 7 + 3) as u8)).collect();
        let mut produced = 300usize;
        let mut k = 0u32;
        while produced < total {
            let l = (total - produced).min(273 - (k as usize * 13) % 100);
            if l >= 2 {
                prog.push(Sym::M(1 + (k * 31) % 290, l as u32));
                produced += l;
            } else {
                prog.push(Sym::L(k as u8));
                produced += 1;
            }
            k += 1;
        }
        let e = enc::encode(3, 0, 2, dict as u64, &prog);
        let mut tg = dec(&format!("[fault-free only] lzma_decompress {} bytes through a {}-byte window", e.expect.len(), dict), Fmt::Lzma, enc::lzma_file(3, 0, 2, dict, Some(e.expect.len() as u64), &e.payload), true);
        tg.expect = Some(e.expect.clone());
        t.push(tg);
    }
    // ---- the other ways of telling the decoder the size (the header is parsed differently for each)
    {
        use crate::cases::SizeOpt;
        let prog = [Sym::L(0x68), Sym::L(0x65), Sym::L(0x6C), Sym::M(1, 4), Sym::S];
        let em = enc::encode(3, 0, 2, u64::MAX, &[&prog[..], &[Sym::E]].concat());
        let es = enc::encode(3, 0, 2, u64::MAX, &prog);
        let n = es.expect.len() as u64;
        let mut mk = |label: &str, size: SizeOpt, input: Vec<u8>| {
            t.push(Target { label: label.to_string(), base: Case::Dec { fmt: Fmt::Lzma, opts: Opts { size, ..Opts::default() }, input: Hex(input), rd: inert.clone(), sk: Sk::default() }, must_flush: true, expect: None });
        };
        mk("lzma_decompress ReadHeaderButUseProvided(Some(n)), header field wrong", SizeOpt::HeaderProvided(Some(n)), enc::lzma_file(3, 0, 2, 4096, Some(3), &es.payload));
        mk("lzma_decompress ReadHeaderButUseProvided(None) + marker, header field set", SizeOpt::HeaderProvided(None), enc::lzma_file(3, 0, 2, 4096, Some(n), &em.payload));
        mk("lzma_decompress ReadHeaderButUseProvided(Some(0)), empty payload", SizeOpt::HeaderProvided(Some(0)), enc::lzma_file(3, 0, 2, 4096, Some(9), &enc::encode(3, 0, 2, u64::MAX, &[]).payload));
        let mut short = enc::lzma_header(3, 0, 2, 4096, None);
        short.truncate(5);
        let mut a = short.clone();
        a.extend_from_slice(&es.payload);
        mk("lzma_decompress UseProvided(Some(n)), 5-byte header", SizeOpt::Provided(Some(n)), a);
        let mut b = short.clone();
        b.extend_from_slice(&em.payload);
        mk("lzma_decompress UseProvided(None) + marker, 5-byte header", SizeOpt::Provided(None), b);
    }
    // ---- LZMA2
    let blob: Vec<u8> = (0..66000u32).map(|i| (i.wrapping_mul(2654435761) >> 24) as u8).collect();
    let w = lzma2::write(&[
        Chunk::U { reset: true, data: blob[..65536].to_vec() },
        Chunk::U { reset: false, data: blob[65536..].to_vec() },
        Chunk::C { class: 2, props: (3, 0, 2), prog: vec![Sym::M(100, 200), Sym::L(1), Sym::S] },
        Chunk::C { class: 3, props: (0, 0, 0), prog: vec![Sym::L(1), Sym::L(2), Sym::M(2, 30)] },
    ]);
    assert!(w.ill.is_none());
    t.push(dec("lzma2_decompress multi-chunk > 64 KiB with mid-stream dictionary reset", Fmt::Lzma2, w.bytes.clone(), true));
    {
        // more than 128 KiB in one dictionary, then a chunk that resets the dictionary, then more data
        let big2: Vec<u8> = (0..140000u32).map(|i| (i.wrapping_mul(2246822519) >> 23) as u8).collect();
        let w = lzma2::write(&[
            Chunk::U { reset: true, data: big2[..65536].to_vec() },
            Chunk::U { reset: false, data: big2[65536..131072].to_vec() },
            Chunk::U { reset: false, data: big2[131072..].to_vec() },
            Chunk::C { class: 3, props: (3, 0, 2), prog: vec![Sym::L(1), Sym::L(2), Sym::M(2, 200), Sym::L(3), Sym::M(1, 100)] },
            Chunk::U { reset: false, data: b"tail".to_vec() },
        ]);
        assert!(w.ill.is_none());
        t.push(dec("lzma2_decompress 140000 bytes in one dictionary, then a dictionary reset", Fmt::Lzma2, w.bytes.clone(), true));
    }
    t.push(dec("lzma2_decompress single 1-byte chunk", Fmt::Lzma2, vec![1, 0, 0, 0x42, 0], true));
    t.push(dec("lzma2_decompress empty stream", Fmt::Lzma2, vec![0], true));
    // ---- XZ
    let blk = |p: &lzma2::Written| Block { payload: p.bytes.clone(), plain: p.expect.clone(), with_csize: true, with_usize: true, ..Default::default() };
    let w1 = lzma2::write(&[Chunk::C { class: 3, props: (3, 0, 2), prog: grow(300) }]);
    let w2 = lzma2::write(&[Chunk::U { reset: true, data: b"second block".to_vec() }]);
    let f = XzFile { check_id: 4, blocks: vec![blk(&w1), blk(&w2), blk(&w1)], ..Default::default() };
    t.push(dec("xz_decompress 3 blocks CRC64", Fmt::Xz, xz::build(&f).0, false));
    let f = XzFile { check_id: 1, blocks: vec![], ..Default::default() };
    t.push(dec("xz_decompress zero blocks", Fmt::Xz, xz::build(&f).0, false));
    // ---- encoders
    let enc_t = |label: &str, fmt: Fmt, size: EncSize, input: Vec<u8>| Target {
        label: label.to_string(),
        base: Case::Enc { fmt, size, input: Hex(input), rd: inert.clone(), sk: Sk::default() },
        must_flush: false,
        expect: None,
    };
    let txt: Vec<u8> = (0..tier.pick(700usize, 2500usize)).map(|i| b"the quick brown fox "[i % 20] ^ ((i / 97) as u8 & 3)).collect();
    for (sn, size) in [("marker", EncSize::HeaderNone), ("size", EncSize::HeaderSome(txt.len() as u64)), ("skip", EncSize::Skip)] {
        t.push(enc_t(&format!("lzma_compress {} bytes [{}]", txt.len(), sn), Fmt::Lzma, size, txt.clone()));
    }
    // incompressible data: bytes leave the range encoder in groups (a cached byte plus a run of pending 0xFF bytes)
    let rnd: Vec<u8> = (0..tier.pick(2000u32, 6000u32)).map(|i| (i.wrapping_mul(2654435761).rotate_left(7) ^ (i >> 3)) as u8).collect();
    t.push(enc_t(&format!("lzma_compress {} pseudo-random bytes [marker]", rnd.len()), Fmt::Lzma, EncSize::HeaderNone, rnd.clone()));
    t.push(enc_t(&format!("lzma_compress {} pseudo-random bytes [size]", rnd.len()), Fmt::Lzma, EncSize::HeaderSome(rnd.len() as u64), rnd.clone()));
    // inputs for which the range coder emits a group of bytes right at the 64 KiB mark of its output (found on the reference
    // encoder, see C04), and inputs above 64 KiB whose source hands over a short first piece
    for w in super::c04::block_boundary_witnesses(65536, 1, 1) {
        t.push(enc_t(&format!("[fault-free only] lzma_compress {} bytes whose coded form has a byte group at its 64 KiB mark", w.len()), Fmt::Lzma, EncSize::HeaderNone, w));
    }
    {
        let big: Vec<u8> = (0..70_000u32).map(|i| (i.wrapping_mul(2246822519) >> 19) as u8).collect();
        let short_first = Rd { cuts: vec![10, usize::MAX], ..Rd::default() };
        for fmt in [Fmt::Lzma2, Fmt::Xz] {
            t.push(Target { label: format!("[fault-free only] {:?} compress 70000 bytes, source hands over 10 bytes first", fmt), base: Case::Enc { fmt, size: EncSize::Skip, input: Hex(big.clone()), rd: short_first.clone(), sk: Sk::default() }, must_flush: false, expect: None });
        }
    }
    // inputs on which the range encoder holds back a cached byte plus a run of 3, 4, ... pending 0xFF bytes and then lets them
    // go at once, with and without a carry (model-guided search on the reference encoder, see C04): the group is the one place
    // where the encoder hands several bytes to the sink in one step, so sinks that take part of a write must still get all
    for (pi, prefix) in [vec![], vec![0u8; 300]].iter().enumerate() {
        let mut found = super::c04::carry_witnesses(prefix, tier.pick(64, 160), tier.pick(6, 16));
        found.sort_by(|a, b| b.1.cmp(&a.1));
        found.truncate(tier.pick(2, 5));
        for (w, run) in found {
            let mut x = w.clone();
            x.extend_from_slice(b"tail");
            t.push(enc_t(&format!("lzma_compress {} bytes: carry through a run of {} pending 0xFF bytes (search start {}) [marker]", x.len(), run, pi), Fmt::Lzma, EncSize::HeaderNone, x.clone()));
            t.push(enc_t(&format!("lzma_compress {} bytes: carry through a run of {} pending 0xFF bytes (search start {}) [size]", x.len(), run, pi), Fmt::Lzma, EncSize::HeaderSome(x.len() as u64), x));
        }
    }
    t.push(enc_t("lzma_compress empty input", Fmt::Lzma, EncSize::HeaderNone, vec![]));
    t.push(enc_t("lzma_compress 1 byte", Fmt::Lzma, EncSize::HeaderSome(1), vec![0xFF]));
    t.push(enc_t("lzma2_compress empty input", Fmt::Lzma2, EncSize::Skip, vec![]));
    t.push(enc_t("lzma2_compress 1 byte", Fmt::Lzma2, EncSize::Skip, vec![7]));
    t.push(enc_t("lzma2_compress 66000 bytes (two chunks)", Fmt::Lzma2, EncSize::Skip, blob.clone()));
    t.push(enc_t("xz_compress empty input", Fmt::Xz, EncSize::Skip, vec![]));
    t.push(enc_t("xz_compress 1 byte", Fmt::Xz, EncSize::Skip, vec![7]));
    t.push(enc_t(&format!("xz_compress {} bytes", txt.len()), Fmt::Xz, EncSize::Skip, txt.clone()));
    t.push(enc_t("xz_compress 66000 bytes (two chunks)", Fmt::Xz, EncSize::Skip, blob.clone()));
    // ---- Stream (sink faults only: its input is a slice handed over by the caller)
    let e = enc::encode(3, 0, 2, 4096, &grow(big));
    let file = enc::lzma_file(3, 0, 2, 4096, Some(big as u64), &e.payload);
    t.push(Target { label: format!("Stream {} bytes through a 4096-byte window", big), base: Case::Stream { opts: Opts::default(), sk: Sk::default(), ops: vec![SOp::WriteAll(Hex(file.clone())), SOp::Flush, SOp::Finish] }, must_flush: true, expect: None });
    let mut ops: Vec<SOp> = file.chunks(7).map(|c| SOp::WriteAll(Hex(c.to_vec()))).collect();
    ops.push(SOp::Finish);
    t.push(Target { label: format!("Stream {} bytes in 7-byte writes", big), base: Case::Stream { opts: Opts::default(), sk: Sk::default(), ops }, must_flush: true, expect: None });
    // output that is an exact multiple of the dictionary size (the last window flush happens inside write), and a stream
    // that allows incomplete input (finish does not validate the end): after a failed write, finish must not succeed
    {
        let e2 = enc::encode(3, 0, 2, 4096, &grow(8192));
        let f2 = enc::lzma_file(3, 0, 2, 4096, Some(8192), &e2.payload);
        let mut ops: Vec<SOp> = f2.chunks(13).map(|c| SOp::WriteAll(Hex(c.to_vec()))).collect();
        ops.push(SOp::Finish);
        t.push(Target { label: "Stream 8192 bytes (= 2 x dictionary) in 13-byte writes".into(), base: Case::Stream { opts: Opts::default(), sk: Sk::default(), ops: ops.clone() }, must_flush: true, expect: None });
        t.push(Target { label: "Stream 8192 bytes (= 2 x dictionary) in 13-byte writes, allow_incomplete".into(), base: Case::Stream { opts: Opts { allow_incomplete: true, ..Opts::default() }, sk: Sk::default(), ops }, must_flush: true, expect: None });
    }
    // other piece sizes: which symbol is decoded from the staging buffer (and so which code path meets the failing
    // window flush) depends on where the piece boundaries fall
    for piece in tier.pick(vec![11usize, 19, 64], vec![2usize, 3, 5, 11, 13, 19, 64, 100]) {
        let mut ops: Vec<SOp> = file.chunks(piece).map(|c| SOp::WriteAll(Hex(c.to_vec()))).collect();
        ops.push(SOp::Finish);
        t.push(Target { label: format!("Stream {} bytes in {}-byte writes", big, piece), base: Case::Stream { opts: Opts::default(), sk: Sk::default(), ops }, must_flush: true, expect: None });
    }
    t
}

pub fn run(tier: Tier) -> i32 {
    let ctx = Ctx::new("C12", "fault_enumeration", tier);
    ctx.set_rule("E3 fault enumeration: for each entry point (six one-shot functions + Stream) and each input, a fault-free run counts R read()/fill_buf() calls, W write() calls and F flush() calls; then EVERY k < R, k < W, k < F is failed once (ErrorKind::Other). Short-write sinks: at most c bytes per call for c in {1,2,3,7}, every single cut position, and c = 1 combined with every write-fault position. Oracle: a reached fault => Err (no panic, no Ok) and the bytes the sink accepted are a prefix of the fault-free output; short writes without a fault => Ok with the complete fault-free output; the LZMA/LZMA2 decoders' last sink call is a successful flush. distinct_nontrivial = runs in which the injected fault was actually reached.");
    let ts = targets(tier);
    let t0 = Instant::now();
    // baselines
    struct Baseline {
        out: Vec<u8>,
        reads: usize,
        writes: usize,
        flushes: usize,
        writes_c1: usize,
    }
    let mut bases: Vec<Baseline> = Vec::new();
    for t in &ts {
        let o = run_case(&t.base);
        if !o.v.is_ok() {
            ctx.violation(&t.base, &format!("{}: fault-free run is Ok", t.label), &o, None);
            bases.push(Baseline { out: vec![], reads: 0, writes: 0, flushes: 0, writes_c1: 0 });
            continue;
        }
        if t.must_flush && !o.flushed_all {
            ctx.violation(&t.base, &format!("{}: on success every byte handed to the sink is followed by a flush of the sink", t.label), &o, None);
        }
        if let Some(want) = &t.expect {
            if !(o.v.is_ok() && o.out.0 == *want) {
                ctx.violation(&t.base, &format!("{}: Ok, and every one of the {} output bytes handed to the sink", t.label, want.len()), &o, None);
            }
        }
        // encoders: "every output byte has been handed to the sink" - what the sink holds decodes back to the input
        if let Case::Enc { fmt, size, input, .. } = &t.base {
            let opts = match size {
                EncSize::Skip if *fmt == Fmt::Lzma => Opts { size: crate::cases::SizeOpt::Provided(Some(input.0.len() as u64)), ..Opts::default() },
                _ => Opts::default(),
            };
            let (v, back, _) = crate::cases::dec_plain(*fmt, &opts, &o.out.0);
            if !(v.is_ok() && back == input.0) {
                ctx.violation(&t.base, &format!("{}: the {} bytes handed to the sink decode back to the {} input bytes (got {:?}, {} bytes)", t.label, o.out.0.len(), input.0.len(), v, back.len()), &o, None);
            }
        }
        let c1 = run_case(&with_env(&t.base, &inert_of(&t.base), &Sk { chunk: 1, ..Sk::default() }));
        bases.push(Baseline { out: o.out.0.clone(), reads: o.reads, writes: o.writes, flushes: o.flushes, writes_c1: c1.writes });
        ctx.sample(json!({"target": t.label, "fault_free": {"reads": o.reads, "writes": o.writes, "flushes": o.flushes, "output_bytes": o.out.0.len()}}));
    }
    // enumerate all environment deviations
    #[derive(Clone)]
    struct Job {
        ti: usize,
        rd: Option<Rd>,
        sk: Sk,
        fault: bool,
        what: String,
    }
    let mut jobs: Vec<Job> = Vec::new();
    for (ti, t) in ts.iter().enumerate() {
        let b = &bases[ti];
        if t.label.starts_with("[fault-free only]") {
            continue; // large inputs: only the fault-free run (complete, decodable output) is judged
        }
        let is_stream = matches!(t.base, Case::Stream { .. });
        if !is_stream {
            for k in 0..b.reads {
                jobs.push(Job { ti, rd: Some(Rd { fail_at: Some(k), ..inert_of(&t.base) }), sk: Sk::default(), fault: true, what: format!("read/fill_buf call #{} of {} fails", k, b.reads) });
            }
        }
        for k in 0..b.writes {
            jobs.push(Job { ti, rd: None, sk: Sk { fail_write_at: Some(k), ..Sk::default() }, fault: true, what: format!("write call #{} of {} fails", k, b.writes) });
        }
        // other ways for a sink to fail: WouldBlock / TimedOut instead of Other, and a call that accepts nothing (Ok(0)),
        // which a correct caller reports as WriteZero
        {
            let stride = (b.writes / tier.pick(200, 1_000_000)).max(1);
            let mut k = 0;
            while k < b.writes {
                for kind in [2u8, 3] {
                    jobs.push(Job { ti, rd: None, sk: Sk { fail_write_at: Some(k), fail_kind: kind, ..Sk::default() }, fault: true, what: format!("write call #{} of {} fails with error kind {}", k, b.writes, kind) });
                }
                jobs.push(Job { ti, rd: None, sk: Sk { zero_write_at: Some(k), ..Sk::default() }, fault: true, what: format!("write call #{} of {} accepts nothing (Ok(0))", k, b.writes) });
                k += stride;
            }
        }
        // other kinds of source failure: WouldBlock and TimedOut are failures like any other; an Interrupted read may
        // be retried (then the result is the fault-free one) or reported
        if !is_stream {
            let stride = (b.reads / tier.pick(150, 1_000_000)).max(1);
            let mut k = 0;
            while k < b.reads {
                for kind in [1u8, 2, 3] {
                    jobs.push(Job { ti, rd: Some(Rd { fail_at: Some(k), fail_kind: kind, ..inert_of(&t.base) }), sk: Sk::default(), fault: true, what: format!("read/fill_buf call #{} of {} fails with error kind {}", k, b.reads, kind) });
                }
                k += stride;
            }
        }
        for k in 0..b.flushes {
            jobs.push(Job { ti, rd: None, sk: Sk { fail_flush_at: Some(k), ..Sk::default() }, fault: true, what: format!("flush call #{} of {} fails", k, b.flushes) });
        }
        for c in [1usize, 2, 3, 7] {
            jobs.push(Job { ti, rd: None, sk: Sk { chunk: c, ..Sk::default() }, fault: false, what: format!("sink accepts at most {} byte(s) per write", c) });
        }
        // a sink with its own write_vectored that accepts part of a multi-buffer call
        for c in [1usize, 2, 3, 4, 5, 7, 4096, 65536] {
            jobs.push(Job { ti, rd: None, sk: Sk { chunk: c, vectored: true, ..Sk::default() }, fault: false, what: format!("sink with write_vectored accepting at most {} byte(s) per call, across buffers", c) });
        }
        // a sink of fixed capacity: accepts what fits, then Ok(0) for ever (`&mut [u8]`, a full pipe) => Err, accepted bytes a prefix
        {
            let n = b.out.len();
            let mut caps: Vec<usize> = vec![0, 1, 2, 12, 13, 14, n / 4, n / 2, 4095, 4096, 4097, 8191, 8192, 65535, 65536, n.saturating_sub(2), n.saturating_sub(1)];
            caps.retain(|c| *c < n);
            caps.sort_unstable();
            caps.dedup();
            for cap in caps {
                for chunk in [0usize, 3] {
                    jobs.push(Job { ti, rd: None, sk: Sk { full_after: Some(cap), chunk, ..Sk::default() }, fault: true, what: format!("sink is full after {} of {} bytes (Ok(0) from then on{})", cap, n, if chunk > 0 { ", 3 bytes per write before" } else { "" }) });
                }
            }
        }
        let n = b.out.len();
        let stride = (n / tier.pick(1500, 20_000)).max(1);
        let mut p = 1;
        while p < n {
            jobs.push(Job { ti, rd: None, sk: Sk { cuts: vec![p], ..Sk::default() }, fault: false, what: format!("sink splits the write crossing byte {}", p) });
            p += stride;
        }
        let stride1 = (b.writes_c1 / tier.pick(2000, 20_000)).max(1);
        let mut k = 0;
        while k < b.writes_c1 {
            jobs.push(Job { ti, rd: None, sk: Sk { chunk: 1, fail_write_at: Some(k), ..Sk::default() }, fault: true, what: format!("1-byte sink, write call #{} of {} fails", k, b.writes_c1) });
            k += stride1;
        }
    }
    let reached = std::sync::atomic::AtomicU64::new(0);
    par_for(jobs.len() as u64, |i| {
        let j = &jobs[i as usize];
        let t = &ts[j.ti];
        let b = &bases[j.ti];
        let rd = j.rd.clone().unwrap_or_else(|| inert_of(&t.base));
        let case = with_env(&t.base, &rd, &j.sk);
        let o: Obs = run_case(&case);
        ctx.eval(1);
        if j.fault {
            if !o.fault_hit {
                // the run took fewer calls than the fault-free one: only possible if behaviour is not deterministic
                ctx.machinery_error(&format!("{}: {}: injected fault was not reached", t.label, j.what));
            }
            reached.fetch_add(1, Ordering::Relaxed);
            ctx.nontriv(1);
            // one-shot calls: the call returns Err. Stream: the call in which the fault occurred returns Err
            // (a later finish() may legitimately succeed once the sink works again).
            // Stream: precisely the call during which the sink failed reports it.
            let errd = if o.ops.is_empty() { o.v.is_err() } else { o.ops.iter().find(|x| x.fault).map_or(false, |x| x.v.is_err()) && !o.ops.iter().any(|x| x.v.is_panic()) };
            // an Interrupted read: retrying is as good as reporting (then everything is as in the fault-free run)
            let retried = j.rd.as_ref().map_or(false, |r| r.fail_kind == 1) && o.v.is_ok() && o.out.0 == b.out;
            if !retried && !(errd && b.out.starts_with(&o.out.0)) {
                ctx.violation(&case, &format!("{}: {} => Err, and the {} bytes accepted by the sink are a prefix of the fault-free output", t.label, j.what, o.out.0.len()), &o, None);
            }
        } else if !(o.v.is_ok() && o.out.0 == b.out) {
            ctx.violation(&case, &format!("{}: {} (no fault) => Ok and the sink holds the complete fault-free output ({} bytes)", t.label, j.what, b.out.len()), &o, None);
        } else if t.must_flush && !o.flushed_all {
            ctx.violation(&case, &format!("{}: {}: final flush of the sink", t.label, j.what), &o, None);
        }
    });
    ctx.set_extra("faults_reached", json!(reached.load(Ordering::Relaxed)));
    ctx.set_extra("targets", json!(ts.len()));
    ctx.scope_done("all-fault-positions", jobs.len() as u64, t0, &format!("{} targets", ts.len()));
    ctx.finish()
}

fn inert_of(c: &Case) -> Rd {
    match c {
        Case::Stream { .. } => Rd::default(),
        // the reader of the fault-free run (call counting without cuts, or the target's own way of handing over the input)
        Case::Dec { rd, .. } | Case::Enc { rd, .. } => rd.clone(),
        _ => Rd { cuts: vec![usize::MAX], ..Rd::default() },
    }
}

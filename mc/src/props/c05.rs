//! C05 — streaming decoder == one-shot decoder under every chunking (E2 state graph of the real Stream).
use super::corpus::{self, ALL_OPTS};
use super::stream_graph::{self, Mode};
use crate::cases::{Opts, SizeOpt};
use crate::common::{brief_bytes, Ctx, Tier};
use crate::explore::par_for;
use serde_json::json;
use std::sync::Mutex;
use std::time::Instant;

pub struct Input {
    pub label: String,
    pub bytes: Vec<u8>,
    pub opts: Opts,
    /// longest symbol of the underlying valid stream, in input bytes (0 = unknown)
    pub max_sym: usize,
}

/// valid streams x options, corrupted variants, trailing-byte variants
pub fn inputs(seed: u64, tier: Tier) -> Vec<Input> {
    let mut v = Vec::new();
    let items = corpus::valid_items(seed, true);
    for it in &items {
        for k in ALL_OPTS {
            if tier == Tier::Quick && it.name.starts_with("long-symbols") && !matches!(k, corpus::OptKind::Header | corpus::OptKind::ProvidedSome) {
                continue;
            }
            if let Some(b) = it.build(k) {
                v.push(Input { label: format!("{} [{:?}] max-symbol={}B", it.name, k, b.max_symbol_bytes), bytes: b.bytes.clone(), opts: b.opts, max_sym: b.max_symbol_bytes });
                // trailing bytes after the stream
                if it.name.starts_with("mix") || it.name.starts_with("lits12") {
                    for (tn, t) in [("00", vec![0u8]), ("00x5", vec![0u8; 5]), ("ffx3", vec![0xFF; 3]), ("00x20", vec![0u8; 20]), ("payload-again", b.bytes[b.header_len..].to_vec())] {
                        if tier == Tier::Quick && (tn == "00x20" || tn == "payload-again") && !matches!(k, corpus::OptKind::Header) {
                            continue;
                        }
                        let mut x = b.bytes.clone();
                        x.extend_from_slice(&t);
                        v.push(Input { label: format!("{} [{:?}] + trailing {}", it.name, k, tn), bytes: x, opts: b.opts, max_sym: 0 });
                    }
                }
            }
        }
    }
    // single-byte substitutions at every position of some streams
    let subst_items: Vec<&corpus::Item> = items.iter().filter(|i| i.name == "mix+size" || i.name == "mix+marker" || (tier == Tier::Thorough && (i.name.starts_with("lits12") || i.name.starts_with("mix") || i.name.starts_with("match-ended") || i.name.starts_with("one-literal") || i.name.starts_with("empty") || i.name.starts_with("long-symbols-300")))).collect();
    for it in subst_items {
        let b = it.build(corpus::OptKind::Header).unwrap();
        for pos in 0..b.bytes.len() {
            for (mn, f) in [("^01", 0x01u8), ("^80", 0x80u8)] {
                let mut x = b.bytes.clone();
                x[pos] ^= f;
                v.push(Input { label: format!("{} byte {} {}", it.name, pos, mn), bytes: x, opts: b.opts, max_sym: 0 });
            }
            if tier == Tier::Thorough || pos % 3 == 0 {
                for val in [0x00u8, 0xFF] {
                    if b.bytes[pos] != val {
                        let mut x = b.bytes.clone();
                        x[pos] = val;
                        v.push(Input { label: format!("{} byte {} := {:02x}", it.name, pos, val), bytes: x, opts: b.opts, max_sym: 0 });
                    }
                }
            }
        }
    }
    // substitutions in the first payload bytes of 5-byte-header streams (those bytes can be parked in the header
    // staging buffer when the header arrives in pieces)
    for it in items.iter().filter(|i| i.name == "mix+size" || i.name == "mix+marker") {
        for k in [corpus::OptKind::ProvidedSome, corpus::OptKind::ProvidedNone] {
            if let Some(b) = it.build(k) {
                for pos in 5..b.bytes.len().min(tier.pick(22, 40)) {
                    for f in [0x01u8, 0x08, 0x80] {
                        let mut x = b.bytes.clone();
                        x[pos] ^= f;
                        v.push(Input { label: format!("{} [{:?}] byte {} ^{:02x}", it.name, k, pos, f), bytes: x, opts: b.opts, max_sym: 0 });
                    }
                }
            }
        }
    }
    // liblzma-made files from the repository
    for (name, bytes) in corpus::repo_lzma_files(400) {
        v.push(Input { label: format!("repo file {}", name), bytes: bytes.clone(), opts: Opts::default(), max_sym: 0 });
        v.push(Input { label: format!("repo file {} [HeaderProvided(None)]", name), bytes, opts: Opts { size: SizeOpt::HeaderProvided(None), ..Opts::default() }, max_sym: 0 });
    }
    v
}

pub fn run(tier: Tier) -> i32 {
    let ctx = Ctx::new("C05", "model_checking", tier);
    ctx.set_rule("E2: for each corpus input x (valid streams of every symbol shape incl. long symbols, with trailing bytes, with single-byte substitutions, liblzma-made files; x every decode option) the state graph of the real Stream is built: nodes = (offset, fingerprint of the complete live state, sink), edges = write(&x[o..o+k]) for EVERY k in 0..=n-o, so the paths are exactly all compositions of x into write calls (incl. empty writes). In every non-failed node finish() is probed on a re-executed copy and must equal the one-shot decoder on x[..offset] (this covers every truncation of x under every chunking); a failed write requires every extension of the offered prefix to be rejected by the one-shot decoder. Merges are exact (live state) and audited. distinct_nontrivial = inputs whose graph has a node with more than one distinct internal state per offset or a symbol spanning >= 4 input bytes.");
    ctx.assume("fingerprint hook names every live field; bytes of the two staging arrays beyond their fill position are dead (argued in DESIGN §3-E2, audited on every merge whose dead bytes differ)");
    let ins = inputs(ctx.seed, tier);
    let name = format!("state-graphs/{}-inputs", ins.len());
    let t0 = Instant::now();
    let agg = Mutex::new((0u64, 0u64, 0u64, 0u64, 0u64, 0usize));
    par_for(ins.len() as u64, |i| {
        if ctx.over_budget() {
            ctx.capped.store(true, std::sync::atomic::Ordering::SeqCst);
            return;
        }
        let inp = &ins[i as usize];
        let g = stream_graph::explore(&ctx, &inp.bytes, &inp.opts, &Mode::Equivalence, &inp.label);
        ctx.eval(g.edges);
        if g.max_states_per_offset > 1 || inp.max_sym >= 4 || g.failed_nodes > 0 {
            ctx.nontriv(1);
        }
        let mut a = agg.lock().unwrap();
        a.0 += g.states;
        a.1 += g.edges;
        a.2 += g.merges;
        a.3 += g.audits;
        a.4 += g.finish_probes;
        a.5 = a.5.max(inp.bytes.len());
        if i % 97 == 0 || inp.label.contains("long-symbols-300+size [Header]") {
            ctx.sample(json!({"input": inp.label, "bytes": brief_bytes(&inp.bytes), "len": inp.bytes.len(), "options": format!("{:?}", inp.opts), "graph_states": g.states, "graph_edges": g.edges, "merges": g.merges, "merge_audits": g.audits, "failed_nodes": g.failed_nodes, "finish_probes": g.finish_probes, "max_states_per_offset": g.max_states_per_offset, "one_shot_ok": g.oneshot_ok}));
        }
    });
    // ---------------------------------------------------------------- adversarially trained long symbols: tail exploration
    {
        let reps = tier.pick(110usize, 180usize);
        let (prog, first) = corpus::adversarial_program(reps);
        let t1 = Instant::now();
        let mut jobs: Vec<(String, Vec<u8>, Opts, Vec<u32>, usize)> = Vec::new();
        for (marker, sized) in [(true, false), (false, true)] {
            let it = corpus::Item { name: format!("adversarial-{}", reps), lc: 0, lp: 0, pb: 0, dict: 1 << 20, prog: prog.clone(), marker, sized };
            for k in [corpus::OptKind::Header, corpus::OptKind::ProvidedSome, corpus::OptKind::ProvidedNone] {
                if let Some(b) = it.build(k) {
                    // start a little before the first expensive symbol
                    let start = b.table[first - 1].0.saturating_sub(25);
                    for bytewise in [false, true] {
                        let init: Vec<u32> = if bytewise { vec![1; start] } else { stream_graph::write_all_history(&b.bytes, &b.opts, start) };
                        jobs.push((format!("{} [{:?}] marker={} prefix fed {} then every chunking of the last {} bytes; longest symbol {} bytes", it.name, k, marker, if bytewise { "bytewise" } else { "at once" }, b.bytes.len() - start, b.max_symbol_bytes), b.bytes.clone(), b.opts, init, b.max_symbol_bytes));
                    }
                }
            }
        }
        // the longest symbol of the format: an end marker (26 direct bits) on a fully adverse path - 18 input bytes
        {
            let (mprog, mfirst, mlen) = corpus::adversarial_marker_best(230);
            let it = corpus::Item { name: "adversarial-marker-230".into(), lc: 0, lp: 0, pb: 0, dict: 1 << 20, prog: mprog, marker: true, sized: false };
            for k in [corpus::OptKind::Header, corpus::OptKind::ProvidedNone] {
                if let Some(b) = it.build(k) {
                    let start = b.table[mfirst - 1].0.saturating_sub(12);
                    for bytewise in [false, true] {
                        let init: Vec<u32> = if bytewise { vec![1; start] } else { stream_graph::write_all_history(&b.bytes, &b.opts, start) };
                        jobs.push((format!("{} [{:?}] prefix fed {} then every chunking of the last {} bytes; the marker takes {} bytes", it.name, k, if bytewise { "bytewise" } else { "at once" }, b.bytes.len() - start, mlen), b.bytes.clone(), b.opts, init, mlen));
                    }
                }
            }
        }
        let longest = jobs.iter().map(|j| j.4).max().unwrap_or(0);
        let agg2 = Mutex::new((0u64, 0u64));
        par_for(jobs.len() as u64, |i| {
            let (label, bytes, opts, init, _) = &jobs[i as usize];
            let g = stream_graph::explore_from(&ctx, bytes, opts, &Mode::Equivalence, label, init);
            ctx.eval(g.edges);
            ctx.nontriv(1);
            let mut a = agg2.lock().unwrap();
            a.0 += g.states;
            a.1 += g.edges;
            if i == 0 {
                ctx.sample(json!({"input": label, "len": bytes.len(), "graph_states": g.states, "graph_edges": g.edges, "finish_probes": g.finish_probes, "max_states_per_offset": g.max_states_per_offset}));
            }
        });
        let a2 = agg2.lock().unwrap();
        ctx.set_extra("longest_symbol_in_adversarial_stream_input_bytes", json!(longest));
        ctx.scope_done(&format!("adversarial-long-symbol-tails/{}-graphs", jobs.len()), jobs.len() as u64, t1, &format!("{} states, {} edges; longest symbol {} input bytes (decoder look-ahead limit 20)", a2.0, a2.1, longest));
    }
    // ---------------------------------------------------------------- long inputs, a few ways of cutting them (linear, not a graph):
    // streams far longer than the graphs can take - offsets beyond 2^16 (2^24), windows that wrap many times, kilobytes of
    // further data after a sized payload inside the same write, dictionaries that are not a multiple of 16
    {
        use crate::cases::{run_case, Case, Fmt, Hex, Rd, SOp, Sk};
        use crate::refmodel::enc::{self, Sym};
        let t2 = Instant::now();
        let mut inputs: Vec<(String, Vec<u8>, Opts)> = Vec::new();
        let nlit = tier.pick(70_000usize, 400_000usize);
        let lit: Vec<Sym> = (0..nlit as u32).map(|i| Sym::L((i.wrapping_mul(2654435761) >> 13) as u8)).collect();
        let e = enc::encode(3, 0, 2, 1 << 16, &lit);
        inputs.push((format!("{} incompressible literals, size in header", nlit), enc::lzma_file(3, 0, 2, 1 << 16, Some(nlit as u64), &e.payload), Opts::default()));
        let mut cp: Vec<Sym> = (0..500u32).map(|i| Sym::L((i * 7 + i / 3) as u8)).collect();
        let mut produced = 500usize;
        let total = tier.pick(1_200_000usize, 20_000_000usize);
        let mut k = 0u32;
        while produced < total {
            if k % 11 == 10 {
                cp.push(Sym::L((k * 13) as u8));
                produced += 1;
            } else {
                let l = 273 - (k % 7);
                cp.push(Sym::M(1 + (k * 37) % 4000u32.min(produced as u32 - 1), l));
                produced += l as usize;
            }
            k += 1;
        }
        for dict in [4096u32, 1 << 20] {
            let mut q = cp.clone();
            q.push(Sym::E);
            let e = enc::encode(3, 0, 2, dict as u64, &q);
            if e.bad.is_none() {
                inputs.push((format!("{} bytes of copies and literals, dictionary {}, end marker", e.expect.len(), dict), enc::lzma_file(3, 0, 2, dict, None, &e.payload), Opts::default()));
            }
        }
        // a sized payload followed by kilobytes of other data (zeros, 0xFF, a second payload)
        {
            let prog: Vec<Sym> = (0..3000u32).map(|i| Sym::L((i.wrapping_mul(40503) >> 7) as u8)).collect();
            let e = enc::encode(3, 0, 2, 4096, &prog);
            let file = enc::lzma_file(3, 0, 2, 4096, Some(3000), &e.payload);
            for (tn, tr) in [("4000 zero bytes", vec![0u8; 4000]), ("4000 bytes 0xFF", vec![0xFF; 4000]), ("a second copy of the payload", e.payload.clone())] {
                let mut x = file.clone();
                x.extend_from_slice(&tr);
                inputs.push((format!("3000-byte payload with its size in the header, followed by {}", tn), x, Opts::default()));
            }
        }
        // dictionaries that are not a multiple of 16: a copy just above the dictionary size after the window has wrapped
        for dict in [4097u32, 4100, 5000] {
            for over in [1u32, 3, 15] {
                let mut prog: Vec<Sym> = (0..300u32).map(|i| Sym::L((i * 11 + 5) as u8)).collect();
                for k in 0..20u32 {
                    prog.push(Sym::M(1 + (k * 41) % 290, 260));
                }
                prog.push(Sym::M(dict + over, 5));
                prog.push(Sym::L(1));
                let e = enc::encode(3, 0, 2, 1 << 20, &prog);
                if e.bad.is_none() {
                    inputs.push((format!("copy at distance dictionary+{} after {} bytes, dictionary {}", over, e.expect.len() - 6, dict), enc::lzma_file(3, 0, 2, dict, Some(e.expect.len() as u64), &e.payload), Opts::default()));
                }
            }
        }
        // a memory limit below, at and above the output length (and below / above the dictionary): whatever the one-shot
        // decoder answers under that limit, the incremental one answers too
        {
            let n = 12_000usize;
            let lits: Vec<Sym> = (0..n as u32).map(|i| Sym::L((i.wrapping_mul(2246822519) >> 11) as u8)).collect();
            let mut near: Vec<Sym> = (0..200u32).map(|i| Sym::L((i * 5 + 1) as u8)).collect();
            for k in 0..44u32 {
                near.push(Sym::M(1 + (k * 17) % 190, 270));
            }
            for (pn, prog) in [("literals only", lits), ("copies at distances < 200", near)] {
                let e = enc::encode(3, 0, 2, 1 << 16, &prog);
                for dict in [4096u32, 1 << 16] {
                    let file = enc::lzma_file(3, 0, 2, dict, Some(e.expect.len() as u64), &e.payload);
                    for ml in [1u64, 256, 4095, 4096, 4097, 8192, e.expect.len() as u64 - 1, e.expect.len() as u64, 65535, 65536, 1 << 20] {
                        inputs.push((format!("{} bytes ({}), dictionary {}, memory limit {}", e.expect.len(), pn, dict, ml), file.clone(), Opts { memlimit: Some(ml), ..Opts::default() }));
                    }
                }
            }
        }
        let mut jobs: Vec<(usize, usize)> = Vec::new();
        for (ii, (_, x, _)) in inputs.iter().enumerate() {
            let n = x.len();
            for piece in [n, 1, 7, 1279, 1280, 1281, 4096, 65535, 65536, 65537] {
                if piece == 1 && n > 120_000 {
                    continue;
                }
                if piece <= n {
                    jobs.push((ii, piece));
                }
            }
        }
        par_for(jobs.len() as u64, |i| {
            let (ii, piece) = jobs[i as usize];
            let (label, x, opts) = &inputs[ii];
            let one = run_case(&Case::Dec { fmt: Fmt::Lzma, opts: *opts, input: Hex(x.clone()), rd: Rd::default(), sk: Sk::default() });
            let mut ops: Vec<SOp> = x.chunks(piece).map(|c| SOp::WriteAll(Hex(c.to_vec()))).collect();
            ops.push(SOp::Finish);
            let case = Case::Stream { opts: *opts, sk: Sk::default(), ops };
            let o = run_case(&case);
            ctx.eval(1);
            ctx.nontriv(1);
            let s_ok = o.ops.iter().all(|r| r.v.is_ok());
            let same = s_ok == one.v.is_ok() && (!s_ok || o.out == one.out) && !o.ops.iter().any(|r| r.v.is_panic());
            if !same {
                ctx.violation(&case, &format!("{}: written in pieces of {} bytes then finish: same verdict as the one-shot decoder ({}) and, on success, the same {} bytes", label, piece, one.v.class(), one.out.0.len()), &o, None);
            }
        });
        ctx.scope_done("long-inputs", jobs.len() as u64, t2, &format!("{} inputs x up to 10 piece sizes", inputs.len()));
    }
    // ---------------------------------------------------------------- gathered writes: a division into three slices handed over in ONE
    // write_vectored call (what was not consumed is offered again), every pair of cut points of the inputs up to 48 bytes
    {
        use crate::cases::{run_case, Case, Fmt, Hex, Rd, SOp, Sk};
        let t3 = Instant::now();
        let mut jobs: Vec<(usize, usize, usize)> = Vec::new();
        for (ii, inp) in ins.iter().enumerate() {
            let n = inp.bytes.len();
            if n > 48 || n < 3 {
                continue;
            }
            for a in 1..n - 1 {
                for b in a + 1..n {
                    jobs.push((ii, a, b));
                }
            }
        }
        par_for(jobs.len() as u64, |i| {
            let (ii, a, b) = jobs[i as usize];
            let inp = &ins[ii];
            let x = &inp.bytes;
            let one = run_case(&Case::Dec { fmt: Fmt::Lzma, opts: inp.opts, input: Hex(x.clone()), rd: Rd::default(), sk: Sk::default() });
            let case = Case::Stream { opts: inp.opts, sk: Sk::default(), ops: vec![SOp::WriteVectoredAll(vec![Hex(x[..a].to_vec()), Hex(x[a..b].to_vec()), Hex(x[b..].to_vec())]), SOp::Finish] };
            let o = run_case(&case);
            ctx.eval(1);
            ctx.nontriv(1);
            let s_ok = o.ops.iter().all(|r| r.v.is_ok());
            let same = s_ok == one.v.is_ok() && (!s_ok || o.out == one.out) && !o.ops.iter().any(|r| r.v.is_panic());
            if !same {
                ctx.violation(&case, &format!("{}: offered through write_vectored as slices [..{}], [{}..{}], [{}..] then finish: same verdict as the one-shot decoder ({}) and, on success, the same {} bytes", inp.label, a, a, b, b, one.v.class(), one.out.0.len()), &o, None);
            }
        });
        ctx.scope_done("gathered-writes", jobs.len() as u64, t3, "every pair of cut points of the inputs up to 48 bytes, one write_vectored call");
    }
    let a = agg.lock().unwrap();
    ctx.set_extra("merges", json!(a.2));
    ctx.set_extra("merge_audits", json!(a.3));
    ctx.set_extra("finish_probes", json!(a.4));
    ctx.set_extra("longest_input_bytes", json!(a.5));
    ctx.set_extra("inputs", json!(ins.len()));
    ctx.set_extra("longest_symbol_in_corpus_input_bytes", json!(ins.iter().map(|i| i.max_sym).max().unwrap_or(0)));
    ctx.scope_done(&name, ins.len() as u64, t0, &format!("{} states, {} write edges, {} merges ({} audited)", a.0, a.1, a.2, a.3));
    ctx.finish()
}

#!/bin/bash
# tools/seedcheck.sh phase1 <patch.diff> <demo.rs> <outdir> [lane]
#     scratch worktree (outside /repo and /verif): apply patch, the 59-test baseline must pass, the demo must fail;
#     revert, the demo must pass. Writes <outdir>/phase1.json. Several lanes may run in parallel (own target dirs).
# tools/seedcheck.sh phase2 <patch.diff> <outdir> [checks...]
#     apply the patch to /repo, run the quick checks (all 18 unless given), undo. Writes <outdir>/phase2.json.
#     Never run two phase2 (or any other ./check) at the same time: they share /repo and the harness target dir.
set -u
PHASE="$1"; shift
if [ "$PHASE" = "phase1" ]; then
  PATCH="$(readlink -f "$1")"; DEMO="$(readlink -f "$2")"; OUT="$3"; LANE="${4:-0}"
  mkdir -p "$OUT" /tmp/sv
  WT="/tmp/sv/wt-$$"
  git -C /repo worktree add -q --detach "$WT" HEAD || exit 2
  trap 'git -C /repo worktree remove --force "$WT" 2>/dev/null; rm -rf "$WT"' EXIT
  cd "$WT"
  export CARGO_TARGET_DIR=/tmp/sv/target-$LANE
  if ! git apply "$PATCH"; then echo '{"error":"patch does not apply"}' > "$OUT/phase1.json"; exit 1; fi
  cargo test --workspace --no-fail-fast --offline > "$OUT/baseline.log" 2>&1
  PASSED=$(grep -E "^test result" "$OUT/baseline.log" | sed -E 's/.* ([0-9]+) passed.*/\1/' | paste -sd+ | bc)
  FAILED=$(grep -E "^test result" "$OUT/baseline.log" | sed -E 's/.* ([0-9]+) failed.*/\1/' | paste -sd+ | bc)
  cp "$DEMO" tests/demo.rs
  cargo test --offline --features stream,raw_decoder --test demo > "$OUT/demo_with.log" 2>&1; DW=$?
  git checkout -q -- src Cargo.toml 2>/dev/null
  cargo test --offline --features stream,raw_decoder --test demo > "$OUT/demo_without.log" 2>&1; DWO=$?
  echo "{\"baseline_passed\": ${PASSED:-0}, \"baseline_failed\": ${FAILED:-0}, \"demo_exit_with_change\": $DW, \"demo_exit_without_change\": $DWO}" > "$OUT/phase1.json"
  cat "$OUT/phase1.json"
elif [ "$PHASE" = "phase2" ]; then
  PATCH="$(readlink -f "$1")"; OUT="$2"; shift 2
  CHECKS="${*:-C01 C02 C03 C04 C05 C06 C07 C08 C09 C10 C11 C12 C13 C14 C15 C16 C17 C18}"
  mkdir -p "$OUT"
  unset CARGO_TARGET_DIR
  cd /verif
  if [ -n "$(git -C /repo status --porcelain)" ]; then echo "refusing: /repo not clean" >&2; exit 2; fi
  DET=""
  if git -C /repo apply "$PATCH"; then
    for c in $CHECKS; do
      ./check $c quick > "$OUT/$c.log" 2>&1; rc=$?
      DET="$DET \"$c\": $rc,"
    done
    git -C /repo checkout -- .
  else
    DET="\"apply_to_repo_failed\": 1,"
  fi
  echo "{\"checks\": {${DET%,}}}" > "$OUT/phase2.json"
  cat "$OUT/phase2.json"
else
  echo "usage: seedcheck.sh phase1|phase2 ..." >&2; exit 2
fi

#!/usr/bin/env python3
"""Regenerates /verif/MANIFEST.json (kept in a script so that the 18 entries stay consistent)."""
import json, subprocess
hooks_commits = ["72e60c6", "61a7b06", "f3c159b"]
C = {
 "C01": ("model_checking", "E1 program-space exploration", "every symbol program of prefix-closed spaces setup.Sigma^<=d (11-symbol automaton alphabet over two setups), a length x distance sweep over every length 2..273 and both ends of every distance slot up to 2^20 (2^26 thorough), every wrap-straddling program on dictionaries 1..6 (8), copies across the 4096 wrap with header dictionary 0/1/4095/4096, and all 225 lc/lp/pb settings, encoded by an independent reference encoder and decoded by lzma-rs in six presentations (known size, marker, provided size, 5-byte header, raw decoder with minimal dictionaries); exact output and exact consumption required", "reference encoder/LZ77 interpreter (bound to liblzma in setup); programs deeper than the stated depth and distances above 2^26 are outside the bound", "5.C01"),
 "C02": ("model_checking", "E1 over chunk programs", "every sequence of <= 3 (4) chunk kinds out of 84 (uncompressed with/without dictionary reset; LZMA chunks of every reset class x 4 property sets x 8 programs that depend on carried rep/state/probabilities/dictionary), every ordered pair of the 75 legal lc/lp/pb triples as a property change, and the 64 KiB / 2 MiB / control-bit size extremes, written by the reference LZMA2 writer and decoded by lzma2_decompress, raw::Lzma2Decoder and xz_decompress", "reference LZMA2/XZ writers bound to liblzma; well-formedness = liblzma's rules", "5.C02"),
 "C03": ("exploration", "E5 configuration grid over a reference writer", "every cell of the container grid (0-3 blocks x 3 check types x optional size fields x 4 header-size classes incl. 1024 x payload length mod 4 x 3 payload kinds) plus true sizes at every multibyte-integer width up to 4 (5) bytes; a grid, not a state space, hence exploration", "reference XZ writer/strict parser bound to liblzma; 6-9 byte encodings of true sizes unreachable (>= 32 GiB blocks)", "5.C03"),
 "C04": ("exploration", "E5 input enumeration x E3 deviation-bounded source fragmentation", "all strings over {00,FF,'a'} up to length 7 (9), all byte strings up to length 2 (3), run-structured inputs on a grid up to 4096, 64 KiB boundary lengths; every compression option; every source cut set (all 2^(n-1) for n <= 12, else <= 2 cuts + bytewise); outputs judged by lzma-rs, a strict reference decoder and liblzma", "liblzma as independent conforming decoder; inputs outside the enumerated families are not covered", "5.C04"),
 "C05": ("model_checking", "E2 explicit-state exploration of the real Stream object with exact state merging", "for each corpus input the complete graph of (offset, fingerprint of the whole live decoder state, sink) under write(&x[o..o+k]) for every k: all 2^(n-1) chunkings and all empty writes of that input; finish() probed in every node against the one-shot decoder on x[..offset] (all truncations for free)", "fingerprint hook complete (merges audited whenever dead bytes differ); inputs are a corpus (valid streams of every symbol shape incl. long symbols, substitutions at every position, trailing bytes, liblzma files), the chunking dimension is complete", "5.C05"),
 "C06": ("fault_enumeration", "E5 exhaustive single-fault enumeration with CRC repair", "every single-bit flip, every listed field x value domain with all enclosing CRCs recomputed, every truncation of reference-written files; verdict expected from a strict independent parser", "strict parser encodes exactly the listed checks; multi-field corruptions not enumerated", "5.C06"),
 "C07": ("exploration", "E5 neighbourhood/grid enumeration + E2 stream graphs under panic/hang/heap monitors", "all short payloads after 13 header contexts, every truncation/substitution/splice of the corpus, every XZ field extreme with CRC repair, raw-decoder parameter grids, all Options shapes, and the streaming decoder over every chunking of mutated streams; overflow-checked build", "'every byte string' is covered inside these neighbourhoods and short-string cubes only", "5.C07"),
 "C08": ("exploration", "E5 full options grid", "12 programs x marker x 7 header size values x all option/size combinations x trailing x {one-shot, Stream whole, Stream bytewise} x 3 lc/lp/pb: 11,196 cells, implications only where the statement fixes the outcome", "header consumption 13/13/5 is observed through the payload only decoding at the right offset", "5.C08"),
 "C09": ("model_checking", "E4 window state-space closure + E1 invalid programs", "breadth-first closure of the real LzCircularBuffer (dict 1..4 (5), histories <= 2*dict+3 over {a,b}) and LzAccumBuffer (histories <= 8 (10)) with every distance probed in every state against a Vec<u8> model, plus valid-prefix + one out-of-window copy programs through all decoders", "window hooks re-export the real types; larger dictionaries covered only through E1", "5.C09"),
 "C10": ("model_checking", "E4 window closure for every limit + E2 stream graphs + allocator measurement", "every limit m in 0..dict+1 on the closed window state space, raw decoder dict 1..6 (8) x every m, public API around need/4095/4096/4097, Stream over all chunkings at need-1/need/need+1, peak-heap delta bound", "Vec growth at most doubles", "5.C10"),
 "C11": ("exploration", "E3 reader kinds x trailers over E1 payload spaces", "every size-bounded LZMA program of the automaton scope up to depth 2 (3) and every LZMA2 sequence up to depth 2 x 5 trailers x reader kinds (slice, BufReader 1..4 (8) and 8192, bytewise, cut); converse for marker-terminated .lzma and .xz", "reader position of BufReader computed as bytes pulled minus bytes still buffered", "5.C11"),
 "C12": ("fault_enumeration", "E3 exhaustive single-fault injection", "every read/fill_buf, write and flush call index of a fault-free run failed once, for 22 targets over all six one-shot entry points and Stream; short-write sinks (1,2,3,7 bytes, every single cut) and 1-byte sink x every write fault", "single faults only; ErrorKind::Other", "5.C12"),
 "C13": ("exploration", "E3 deviation-bounded fragmentation (deviation = one cut)", "all cut sets with <= 2 (3) cuts, all 2^(n-1) cut sets for n <= 14 (18), bytewise, every period, BufReader capacities 1..64 over ~390 valid/invalid inputs of the three decoders; compared with the unfragmented run", "more than 3 cuts on long inputs not enumerated", "5.C13"),
 "C14": ("model_checking", "E2 history graph on the real raw decoders with exact state merging", "BFS over call histories (decompress of 8-10 state-sensitive streams, reset(None), reset(Some(size))) to depth 4 (6) for 3 LZMA parameter sets and to depth 5 (7) for LZMA2; every post-reset decompress compared with a fresh decoder; post-reset states collapse to one per size", "fingerprint covers every decoder field", "5.C14"),
 "C15": ("model_checking", "E2 Stream state graph with allow_incomplete", "prefix and lag invariants evaluated in every node (every prefix x every chunking) of every valid corpus stream incl. long-symbol and window-wrapping streams; lag bound from the reference per-symbol consumption table", "per-symbol table from the reference encoder/decoder", "5.C15"),
 "C16": ("model_checking", "E2 Stream state graph continued past failure/completion", "from every failed node and every size-reached node of the graphs of corrupt / over-long / size-terminated inputs: further writes, flush, get_output, finish", "corpus inputs; chunking dimension complete", "5.C16"),
 "C17": ("exploration", "E5 complete mutation domains judged by a strict reference LZMA2 decoder", "every control byte 0x03..0x7F, every illegal property byte, declared sizes true+-k, shortened bodies, every truncation, at every chunk of 11 (30+) base sequences incl. zero-cost-symbol chunks; only mutants the reference calls invalid for a listed reason are submitted", "declared compressed size larger than needed is not listed by C17 and not submitted", "5.C17"),
 "C18": ("exploration", "E5 finite feature domains", "all 16 check IDs, every reserved bit, 16 filter IDs alone and ahead of LZMA2, concatenated streams, stream padding on 3 base files, all CRCs correct", "zero-block SHA-256 files not submitted (nothing left unverified)", "5.C18"),
}
checks = []
for pid in sorted(C):
    level, tech, text, note, ref = C[pid]
    checks.append({
        "property_id": pid,
        "quick_cmd": "./check %s quick" % pid,
        "thorough_cmd": "./check %s thorough" % pid,
        "evidence_file": "/verif/evidence/%s.json" % pid,
        "replay_cmd_template": "./check replay {path}",
        "engine": "lzmc",
        "level_claimed": {"category": level, "text": text + " (thorough-tier bounds in parentheses).", "design_ref": "DESIGN.md §" + ref},
        "level_note": note,
        "technique": "bounded-exhaustive model checking: " + tech,
    })
m = {
 "version": 1,
 "setup_cmd": "cd /verif && ./check build && ./check bind",
 "hooks": {
   "guard": "cargo feature verif_hooks (off by default)",
   "enable": "the harness crate /verif/mc depends on /repo by path with features stream,raw_decoder,verif_hooks; every ./check invocation runs cargo build, which rebuilds lzma-rs from /repo's working tree",
   "baseline_off_cmd": "cd /repo && cargo test --workspace --no-fail-fast --offline",
   "source_commits": hooks_commits,
   "add_only": True,
 },
 "engines": [{"name": "lzmc", "path": "/verif/mc", "serves_properties": sorted(C), "kind_free_text": "purpose-built explicit-state / stateless bounded-exhaustive explorer in Rust running the real lzma-rs code against reference models (E1 program spaces, E2 history/state graphs with exact fingerprint merging, E3 environment deviations, E4 window closure, E5 neighbourhood/grid enumeration)"}],
 "checks": checks,
 "not_applicable": [],
 "notes": "exit 0 = held on everything explored (KNOWN-FINDING lines for listed findings), 1 = VIOLATION line(s), 2 = machinery error (build failure, model not bound, unsound merge, non-deterministic replay) - never a verdict. Known findings: /verif/known_findings.json (none open; six defects fixed). Seeded breakage kept under /verif/seeded/.",
}
json.dump(m, open('/verif/MANIFEST.json', 'w'), indent=1)
print("wrote MANIFEST.json with", len(checks), "checks")

#!/bin/bash
# tools/selftest_par.sh [lanes] [name-filter]
# Same job as tools/selftest.sh (every own mutant and every kept sub-agent change must make the quick check of its
# property exit 1), but in parallel lanes that never touch /repo's working tree: each lane gets its own scratch git
# worktree of /repo HEAD, its own copy of the harness crate pointing at that worktree, and its own VERIF_DIR (evidence
# and replay files of these runs are throw-away). Everything lives under /tmp/sv/par and is removed at the end.
# The wall-clock budget of the quick tier is raised (VERIF_BUDGET_S=400): lanes share the cores, and a scope skipped for
# lack of time would be read as "not detected".
# Writes /verif/mutants/selftest_results.json (merged with existing results when a filter is given).
set -u
LANES="${1:-4}"; FILTER="${2:-}"
ROOT=/tmp/sv/par
rm -rf "$ROOT"; mkdir -p "$ROOT"
python3 - "$FILTER" <<'PY' > "$ROOT/list.txt"
import json,glob,os,sys
flt=sys.argv[1]
rows=[]
for m in json.load(open('/verif/mutants/index.json')):
    rows.append((m['name'], m['property'], '/verif/mutants/%s.patch' % m['name']))
for d in sorted(glob.glob('/verif/seeded/*/')):
    mj = os.path.join(d, 'meta.json')
    if os.path.exists(mj):
        m = json.load(open(mj))
        if m.get('expect_detected') is False:
            continue
        # (a few sub-agent changes break a neighbouring property rather than the one they were asked about: meta.detecting_check)
        rows.append(('seeded-' + os.path.basename(d.rstrip('/')), m.get('detecting_check', m['property']), os.path.join(d, 'patch.diff')))
for r in rows:
    if flt in r[0]:
        print(*r)
PY
N=$(wc -l < "$ROOT/list.txt")
[ "$N" -gt 0 ] || { echo "nothing matches"; exit 2; }
split -n r/$LANES -d "$ROOT/list.txt" "$ROOT/lane."
for lane in $(seq 0 $((LANES-1))); do
  (
    L="$ROOT/l$lane"; mkdir -p "$L/verif/evidence" "$L/verif/replays"
    cp /verif/known_findings.json "$L/verif/"
    git -C /repo worktree add -q --detach "$L/repo" HEAD
    rsync -a --exclude target /verif/mc "$L/"
    sed -i "s#path = \"/repo\"#path = \"$L/repo\"#" "$L/mc/Cargo.toml"
    f=$(printf "$ROOT/lane.%02d" $lane)
    [ -f "$f" ] || exit 0
    while read -r name prop patch; do
      ( cd "$L/repo" && git checkout -q -- . && git apply "$patch" ) || { echo "$name $prop APPLYFAIL" >> "$ROOT/res.$lane"; continue; }
      ( cd "$L/mc" && CARGO_NET_OFFLINE=true cargo build --release --offline > "$L/build.log" 2>&1 ) || { echo "$name $prop BUILDFAIL" >> "$ROOT/res.$lane"; continue; }
      ( cd "$L/mc" && VERIF_BUDGET_S=400 VERIF_DIR="$L/verif" timeout 1800 ./target/release/lzmc "$prop" quick > "$L/check.log" 2>&1 ); rc=$?
      nv=$(grep -c "^VIOLATION property=$prop " "$L/check.log")
      first=$(grep -m1 -A1 "^VIOLATION" "$L/check.log" | tail -1 | cut -c1-300 | tr '\t' ' ')
      printf "%s\t%s\t%s\t%s\t%s\n" "$name" "$prop" "$rc" "$nv" "$first" >> "$ROOT/res.$lane"
      printf "%-50s %s exit=%s violations=%s\n" "$name" "$prop" "$rc" "$nv"
    done < "$f"
    git -C /repo worktree remove --force "$L/repo"
  ) &
done
wait
python3 - "$FILTER" <<'PY'
import glob, json, os, sys
flt = sys.argv[1]
new = []
for f in sorted(glob.glob('/tmp/sv/par/res.*')):
    for l in open(f):
        p = l.rstrip('\n').split('\t')
        if len(p) < 5:
            w = l.split()
            new.append({"mutant": w[0], "property": w[1], "baseline": "skipped", "check_exit": -1, "violation_lines": 0, "first": w[2]})
        else:
            new.append({"mutant": p[0], "property": p[1], "baseline": "skipped", "check_exit": int(p[2]), "violation_lines": int(p[3]), "first": p[4]})
path = '/verif/mutants/selftest_results.json'
old = []
if flt and os.path.exists(path):
    names = {r['mutant'] for r in new}
    old = [r for r in json.load(open(path)) if r['mutant'] not in names]
allr = old + new
order = {}
for i, l in enumerate(open('/tmp/sv/par/list.txt')):
    order[l.split()[0]] = i
allr.sort(key=lambda r: (0 if not r['mutant'].startswith('seeded-') else 1, r['mutant']))
json.dump(allr, open(path, 'w'), indent=0)
bad = [r['mutant'] for r in new if r['check_exit'] != 1 or r['violation_lines'] < 1]
print("selftest: %d run, %d not detected: %s" % (len(new), len(bad), bad))
PY
git -C /repo worktree prune
rm -rf "$ROOT"

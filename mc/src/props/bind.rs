//! Model binding (DESIGN §2.2): the reference encoder/decoders against liblzma and the repository's
//! liblzma-made test files. A failure here is a machinery error (exit 2), never a VIOLATION.
use crate::refmodel::{dec, enc, lzma2, xz};
use crate::refmodel::enc::Sym;

fn liblzma(data: &[u8]) -> Result<Vec<u8>, String> {
    lzma::decompress(data).map_err(|e| format!("{:?}", e))
}

pub fn programs() -> Vec<Vec<Sym>> {
    let mut v = Vec::new();
    let lits: Vec<Sym> = (0..40u32).map(|i| Sym::L(((i * 73 + 5) & 0xFF) as u8)).collect();
    v.push(lits.clone());
    let mut p = lits.clone();
    p.extend([Sym::M(1, 2), Sym::L(9), Sym::M(7, 10), Sym::S, Sym::R(0, 5), Sym::R(1, 18), Sym::L(3), Sym::R(2, 273), Sym::R(3, 2), Sym::M(40, 100), Sym::S, Sym::L(1)]);
    v.push(p);
    let mut q = vec![Sym::L(0); 1];
    q.push(Sym::M(1, 273));
    for d in [1u32, 2, 3, 4, 5, 7, 8, 12, 16, 24, 32, 48, 64, 96, 128, 192, 200, 270] {
        q.push(Sym::L(d as u8));
        q.push(Sym::M(d, 2 + d % 9));
    }
    v.push(q);
    v
}

pub fn run() -> i32 {
    let mut fails = 0;
    let mut n = 0;
    // 0. end markers with non-minimal length codes: liblzma accepts them (the reserved distance ends the stream)
    for prog in programs() {
        for l in [2u32, 3, 9, 10, 18, 100, 273] {
            let mut p = prog.clone();
            p.push(Sym::EL(l));
            let e = enc::encode(3, 0, 2, u64::MAX, &p);
            let file = enc::lzma_file(3, 0, 2, 1 << 16, None, &e.payload);
            n += 1;
            match liblzma(&file) {
                Ok(o) if o == e.expect => {}
                other => {
                    eprintln!("bind: liblzma disagrees on an end marker with match length {}: {:?}", l, other.map(|o| o.len()));
                    fails += 1;
                }
            }
        }
    }
    // 1. reference encoder -> liblzma and reference decoder
    for prog in programs() {
        for (lc, lp, pb) in [(3, 0, 2), (0, 0, 0), (4, 0, 4), (0, 4, 0), (1, 3, 4), (2, 2, 1)] {
            for marker in [false, true] {
                let mut p = prog.clone();
                if marker {
                    p.push(Sym::E);
                }
                let e = enc::encode(lc, lp, pb, u64::MAX, &p);
                assert!(e.bad.is_none());
                let size = if marker { None } else { Some(e.expect.len() as u64) };
                let file = enc::lzma_file(lc, lp, pb, 1 << 16, size, &e.payload);
                n += 1;
                match liblzma(&file) {
                    Ok(o) if o == e.expect => {}
                    other => {
                        eprintln!("bind: liblzma disagrees with reference encoder on {} lc{} lp{} pb{} marker={}: {:?}", enc::prog_str(&p), lc, lp, pb, marker, other.map(|o| o.len()));
                        fails += 1;
                    }
                }
                let (v, d) = dec::strict_lzma(lc, lp, pb, 1 << 16, size, &e.payload, true);
                if v != dec::Verdict::Ok(e.expect.clone()) {
                    eprintln!("bind: reference decoder disagrees with reference encoder on {}: {:?}", enc::prog_str(&p), v);
                    fails += 1;
                }
                // per-symbol table of the decoder == table of the encoder
                let dt: Vec<(usize, usize)> = d.syms.iter().map(|s| (s.consumed, s.produced)).collect();
                if dt != e.table {
                    eprintln!("bind: consumption tables differ on {}", enc::prog_str(&p));
                    fails += 1;
                }
            }
        }
    }
    // 2. repository test files (made by liblzma) through the reference decoders
    let dir = "/repo/tests/files";
    for (f, plain) in [("hello.txt.lzma", "hello.txt"), ("foo.txt.lzma", "foo.txt"), ("range-coder-edge-case.lzma", "range-coder-edge-case"), ("empty.txt.lzma", "empty.txt")] {
        let (Ok(c), Ok(p)) = (std::fs::read(format!("{}/{}", dir, f)), std::fs::read(format!("{}/{}", dir, plain))) else {
            eprintln!("bind: note: {} not present, skipped", f);
            continue;
        };
        n += 1;
        let props = c[0] as u32;
        let (lc, lp, pb) = (props % 9, (props / 9) % 5, props / 45);
        let dict = u32::from_le_bytes([c[1], c[2], c[3], c[4]]) as u64;
        let sz = u64::from_le_bytes(c[5..13].try_into().unwrap());
        let size = if sz == u64::MAX { None } else { Some(sz) };
        let (v, _) = dec::strict_lzma(lc, lp, pb, dict.max(4096), size, &c[13..], false);
        if v != dec::Verdict::Ok(p) {
            eprintln!("bind: reference LZMA decoder fails on {}: {:?}", f, match v { dec::Verdict::Invalid(s) => s, _ => "wrong output".into() });
            fails += 1;
        }
    }
    for (f, plain) in [("hello.txt.xz", "hello.txt"), ("foo.txt.xz", "foo.txt"), ("empty.txt.xz", "empty.txt"), ("good-1-lzma2-1.xz", "good-1-lzma2-1"), ("good-1-lzma2-2.xz", "good-1-lzma2-2"), ("good-1-lzma2-3.xz", "good-1-lzma2-3"), ("good-1-lzma2-4.xz", "good-1-lzma2-4"), ("block-check-crc32.txt.xz", "block-check-crc32.txt")] {
        let (Ok(c), Ok(p)) = (std::fs::read(format!("{}/{}", dir, f)), std::fs::read(format!("{}/{}", dir, plain))) else {
            eprintln!("bind: note: {} not present, skipped", f);
            continue;
        };
        n += 1;
        match xz::strict_parse(&c) {
            xz::Vx::Ok(o) if o == p => {}
            other => {
                eprintln!("bind: reference XZ parser fails on {}: {:?}", f, match other { xz::Vx::Ok(_) => "wrong output".to_string(), xz::Vx::Invalid(s) | xz::Vx::Unsupported(s) => s });
                fails += 1;
            }
        }
    }
    // 3. reference LZMA2 + XZ writers -> liblzma and reference parser
    let progs = programs();
    let chunk_seqs: Vec<Vec<lzma2::Chunk>> = vec![
        vec![lzma2::Chunk::U { reset: true, data: b"hello world".to_vec() }],
        vec![lzma2::Chunk::C { class: 3, props: (3, 0, 2), prog: progs[1].clone() }],
        vec![
            lzma2::Chunk::U { reset: true, data: b"abcdefgh".to_vec() },
            lzma2::Chunk::C { class: 2, props: (1, 3, 4), prog: vec![Sym::M(8, 5), Sym::L(1), Sym::S, Sym::R(0, 3)] },
            lzma2::Chunk::C { class: 0, props: (0, 0, 0), prog: vec![Sym::S, Sym::L(7), Sym::R(0, 2), Sym::M(3, 9)] },
            lzma2::Chunk::U { reset: false, data: b"xyz".to_vec() },
            lzma2::Chunk::C { class: 1, props: (0, 0, 0), prog: vec![Sym::M(3, 4), Sym::L(2)] },
            lzma2::Chunk::C { class: 3, props: (0, 0, 0), prog: vec![Sym::L(5), Sym::M(1, 20)] },
            lzma2::Chunk::C { class: 2, props: (4, 0, 1), prog: vec![Sym::M(21, 3), Sym::L(2)] },
        ],
    ];
    for cs in &chunk_seqs {
        let w = lzma2::write(cs);
        if w.ill.is_some() {
            eprintln!("bind: chunk sequence unexpectedly ill-formed: {:?}", w.ill);
            fails += 1;
            continue;
        }
        match lzma2::strict_decode(&w.bytes) {
            lzma2::V2::Ok(o, used) if o == w.expect && used == w.bytes.len() => {}
            other => {
                eprintln!("bind: reference LZMA2 decoder disagrees with writer on {}: {:?}", lzma2::chunks_str(cs), other);
                fails += 1;
            }
        }
        for check in [0u8, 1, 4, 10] {
            for (cs_f, us_f, pad) in [(false, false, 0), (true, true, 0), (true, false, 2), (false, true, 5)] {
                let blk = xz::Block { payload: w.bytes.clone(), plain: w.expect.clone(), with_csize: cs_f, with_usize: us_f, extra_pad4: pad, ..Default::default() };
                for nblocks in [0usize, 1, 3] {
                    let f = xz::XzFile { check_id: check, blocks: vec![blk.clone(); nblocks], ..Default::default() };
                    let (bytes, _) = xz::build(&f);
                    n += 1;
                    let want: Vec<u8> = (0..nblocks).flat_map(|_| w.expect.clone()).collect();
                    match liblzma(&bytes) {
                        Ok(o) if o == want => {}
                        other => {
                            eprintln!("bind: liblzma rejects reference XZ file (check {} blocks {}): {:?}", check, nblocks, other.map(|o| o.len()));
                            fails += 1;
                        }
                    }
                    let pv = xz::strict_parse(&bytes);
                    let ok = match (&pv, check) {
                        (xz::Vx::Ok(o), 0 | 1 | 4) => *o == want,
                        (xz::Vx::Unsupported(_), 10) => true,
                        _ => false,
                    };
                    if !ok {
                        eprintln!("bind: reference XZ parser disagrees with writer (check {} blocks {}): {:?}", check, nblocks, pv);
                        fails += 1;
                    }
                }
            }
        }
    }
    // 4. the adversarially trained long-symbol stream: also a liblzma-valid stream
    for reps in [40usize, 110] {
        let (prog, first) = super::corpus::adversarial_program(reps);
        if std::env::var("VERIF_DEBUG").is_ok() {
            let mut m = enc::Model::new(0, 0, 0).with_dict(1 << 20);
            let mut rc = enc::RcEnc::new();
            for s in &prog[..first] {
                m.enc(&mut rc, *s);
            }
            if let Sym::M(d, l) = prog[first] {
                for (name, p, b) in m.debug_match_path(d, l) {
                    let pr = if b == 0 { p as f64 / 2048.0 } else { 1.0 - p as f64 / 2048.0 };
                    eprintln!("    {:<12} prob0={:4} bit={} cost={:.2} bits", name, p, b, -pr.log2());
                }
            }
        }
        let mut p = prog.clone();
        p.push(Sym::E);
        let e = enc::encode(0, 0, 0, 1 << 20, &p);
        assert!(e.bad.is_none());
        let mut prev = 5usize;
        let mut maxsym = 0usize;
        for (c, _) in &e.table {
            maxsym = maxsym.max(c - prev);
            prev = *c;
        }
        let file = enc::lzma_file(0, 0, 0, 1 << 20, None, &e.payload);
        n += 1;
        match liblzma(&file) {
            Ok(o) if o == e.expect => {}
            other => {
                eprintln!("bind: liblzma disagrees on the adversarial stream: {:?}", other.map(|o| o.len()));
                fails += 1;
            }
        }
        eprintln!("bind: adversarial stream reps={}: {} symbols, payload {} bytes, output {} bytes, first expensive symbol #{} at payload offset {}, longest symbol {} input bytes", reps, p.len(), e.payload.len(), e.expect.len(), first, e.table[first - 1].0, maxsym);
    }
    // 5. the adversarially trained end marker (longest symbol of the format): liblzma-valid, and how long it gets
    for reps in [110usize, 230] {
        let mut best = (0usize, 0usize);
        for pad in 0..120usize {
            let (p, first) = super::corpus::adversarial_marker_program(reps, pad);
            let e = enc::encode(0, 0, 0, 1 << 20, &p);
            assert!(e.bad.is_none(), "{:?}", e.bad);
            let last = e.payload.len() - e.table[first - 1].0;
            if last > best.0 {
                best = (last, pad);
            }
        }
        let (p, first) = super::corpus::adversarial_marker_program(reps, best.1);
        if std::env::var("VERIF_DEBUG").is_ok() {
            let mut m = enc::Model::new(0, 0, 0).with_dict(1 << 20);
            let mut rc = enc::RcEnc::new();
            for s in &p[..first] {
                m.enc(&mut rc, *s);
            }
            let mut tot = 0.0;
            for (name, pr0, b) in m.debug_match_path(0xFFFF_FFFF, 273) {
                let pr = if b == 0 { pr0 as f64 / 2048.0 } else { 1.0 - pr0 as f64 / 2048.0 };
                tot += -pr.log2();
                eprintln!("    {:<12} prob0={:4} bit={} cost={:.2} bits", name, pr0, b, -pr.log2());
            }
            eprintln!("    total coded {:.1} bits + 26 direct", tot);
        }
        let e = enc::encode(0, 0, 0, 1 << 20, &p);
        let file = enc::lzma_file(0, 0, 0, 1 << 20, None, &e.payload);
        n += 1;
        match liblzma(&file) {
            Ok(o) if o == e.expect => {}
            other => {
                eprintln!("bind: liblzma disagrees on the adversarial marker stream: {:?}", other.map(|o| o.len()));
                fails += 1;
            }
        }
        eprintln!("bind: adversarial marker stream reps={} pad={}: {} symbols, payload {} bytes, output {} bytes, the marker takes the last {} payload bytes", reps, best.1, p.len(), e.payload.len(), e.expect.len(), best.0);
        let _ = first;
    }
    if fails > 0 {
        eprintln!("bind: {} disagreement(s) in {} objects: model not bound", fails, n);
        2
    } else {
        eprintln!("bind: reference model agrees with liblzma / repository test files on {} objects", n);
        0
    }
}

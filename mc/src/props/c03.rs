//! C03 — XZ container decoding is exact for every well-formed supported file (E5 over the reference writer).
use super::c02::obs_of;
use crate::cases::{dec_plain, Case, Fmt, Hex, Opts, Rd, Sk};
use crate::common::{brief_bytes, Ctx, Tier};
use crate::explore::par_for;
use crate::refmodel::enc::Sym;
use crate::refmodel::lzma2::{self, Chunk};
use crate::refmodel::xz::{self, Block, Vx, XzFile};
use serde_json::json;
use std::sync::atomic::Ordering;
use std::time::Instant;

/// (LZMA2 stream bytes, plaintext) for a payload kind and a wanted `len % 4` of the compressed data.
/// A stored payload of exactly `n` plaintext bytes (n may be 0: the LZMA2 stream is then just the end byte).
pub fn stored_payload(n: usize, salt: usize) -> (Vec<u8>, Vec<u8>) {
    let data: Vec<u8> = (0..n).map(|i| (i * 131 + salt * 7) as u8).collect();
    let cs: Vec<Chunk> = data.chunks(65536).enumerate().map(|(k, c)| Chunk::U { reset: k == 0, data: c.to_vec() }).collect();
    let w = lzma2::write(&cs);
    (w.bytes, w.expect)
}

pub fn payload(kind: usize, residue: usize, salt: usize) -> (Vec<u8>, Vec<u8>) {
    for extra in 0..64usize {
        let n = 3 + salt % 5 + extra;
        let cs: Vec<Chunk> = match kind {
            0 => vec![Chunk::U { reset: true, data: (0..n).map(|i| (i * 31 + salt) as u8).collect() }],
            1 => {
                let mut p: Vec<Sym> = (0..n).map(|i| Sym::L((i * 29 + salt * 3) as u8)).collect();
                p.extend([Sym::M(2, 4), Sym::S, Sym::R(0, 3)]);
                vec![Chunk::C { class: 3, props: (3, 0, 2), prog: p }]
            }
            _ => vec![
                Chunk::U { reset: true, data: (0..n).map(|i| (i * 17 + salt) as u8).collect() },
                Chunk::C { class: 2, props: (1, 1, 1), prog: vec![Sym::M(2, 5), Sym::L(salt as u8), Sym::S] },
                Chunk::C { class: 0, props: (0, 0, 0), prog: vec![Sym::R(0, 2), Sym::L(1)] },
                Chunk::U { reset: false, data: vec![9, 8, 7] },
                // a compressed chunk that resets the dictionary (and brings new properties) in the middle of the block
                Chunk::C { class: 3, props: (2, 1, 0), prog: vec![Sym::L(salt as u8 ^ 0x55), Sym::L(0x10), Sym::L(0x33), Sym::M(2, 3), Sym::S] },
                Chunk::C { class: 0, props: (2, 1, 0), prog: vec![Sym::R(0, 2), Sym::L(4)] },
            ],
        };
        let w = lzma2::write(&cs);
        assert!(w.ill.is_none());
        if w.bytes.len() % 4 == residue {
            return (w.bytes, w.expect);
        }
    }
    panic!("no payload with residue {}", residue);
}

pub fn check_file(ctx: &Ctx, f: &XzFile, label: &str) {
    let (bytes, _) = xz::build(f);
    let want: Vec<u8> = f.blocks.iter().flat_map(|b| b.plain.clone()).collect();
    // the reference parser must agree that the file is well-formed (otherwise the writer/parser are inconsistent)
    match xz::strict_parse(&bytes) {
        Vx::Ok(o) if o == want => {}
        other => ctx.machinery_error(&format!("reference XZ parser rejects a reference-written file ({}): {:?}", label, other)),
    }
    let (v, out, consumed) = dec_plain(Fmt::Xz, &Opts::default(), &bytes);
    ctx.traces.fetch_add(1, Ordering::Relaxed);
    if !(v.is_ok() && out == want && consumed == bytes.len()) {
        let case = Case::Dec { fmt: Fmt::Xz, opts: Opts::default(), input: Hex(bytes), rd: Rd::default(), sk: Sk::default() };
        ctx.violation(&case, &format!("{}: Ok with the concatenation of the blocks {} ({} bytes)", label, brief_bytes(&want), want.len()), &obs_of(v, out, consumed), None);
        return;
    }
    // a well-formed file decodes whatever way the source hands its bytes over (files up to 64 KiB)
    if bytes.len() <= 65536 {
        for rd in [Rd { period: 1, ..Rd::default() }, Rd { period: 5, ..Rd::default() }, Rd { bufreader: 6, ..Rd::default() }, Rd { bufreader: 19, period: 7, ..Rd::default() }] {
            let case = Case::Dec { fmt: Fmt::Xz, opts: Opts::default(), input: Hex(bytes.clone()), rd: rd.clone(), sk: Sk::default() };
            let o = crate::cases::run_case(&case);
            ctx.traces.fetch_add(1, Ordering::Relaxed);
            if !(o.v.is_ok() && o.out.0 == want) {
                ctx.violation(&case, &format!("{} read through {:?}: Ok with the concatenation of the blocks ({} bytes)", label, rd, want.len()), &o, None);
                return;
            }
        }
        // ... and whatever way the sink accepts them (1 or 7 bytes per call): block checks are computed over the
        // block's content, not over what was offered to the sink
        if want.len() <= 4096 {
            for chunk in [1usize, 7] {
                let case = Case::Dec { fmt: Fmt::Xz, opts: Opts::default(), input: Hex(bytes.clone()), rd: Rd::default(), sk: Sk { chunk, ..Sk::default() } };
                let o = crate::cases::run_case(&case);
                ctx.traces.fetch_add(1, Ordering::Relaxed);
                if !(o.v.is_ok() && o.out.0 == want) {
                    ctx.violation(&case, &format!("{} into a sink accepting {} byte(s) per call: Ok with the concatenation of the blocks ({} bytes)", label, chunk, want.len()), &o, None);
                    return;
                }
            }
        }
    }
}

pub fn run(tier: Tier) -> i32 {
    let ctx = Ctx::new("C03", "exploration", tier);
    ctx.set_rule("E5: every cell of the container grid {0..3 blocks} x {check None, CRC32, CRC64} x {compressed-size field present} x {uncompressed-size field present} x {header size minimal, +4, +8, 1024} x {compressed length mod 4 = 0..3 per block, rotating} x {payload stored / one LZMA chunk / multi-chunk}, written by the reference XZ writer (accepted by the reference strict parser, bound to liblzma), must decode to the concatenation of the blocks. Plus multibyte-integer widths 1..4 bytes (5 in thorough) as true sizes. distinct_nontrivial = files with >= 2 blocks or non-minimal headers or size fields.");
    ctx.assume("reference XZ writer bound to liblzma by `lzmc bind` (and re-checked here in the thorough tier)");
    // ---------------------------------------------------------------- grid
    {
        let name = "grid";
        let t0 = Instant::now();
        let mut cells = Vec::new();
        for nb in 0..=3usize {
            for check in [0u8, 1, 4] {
                for cs in [false, true] {
                    for us in [false, true] {
                        for pad in 0..4usize {
                            for res in 0..4usize {
                                for kind in 0..3usize {
                                    if nb == 0 && (cs || us || pad > 0 || res > 0 || kind > 0) {
                                        continue;
                                    }
                                    cells.push((nb, check, cs, us, pad, res, kind));
                                }
                            }
                        }
                    }
                }
            }
        }
        par_for(cells.len() as u64, |i| {
            let (nb, check, cs, us, pad, res, kind) = cells[i as usize];
            let mut blocks = Vec::new();
            for b in 0..nb {
                let (p, plain) = payload((kind + b) % 3, (res + b) % 4, b * 7 + i as usize % 11);
                let mut blk = Block { payload: p, plain, with_csize: cs, with_usize: us, ..Default::default() };
                blk.extra_pad4 = match pad {
                    0 => 0,
                    1 => 1,
                    2 => 2,
                    _ => {
                        // grow to the maximum header size of 1024 bytes
                        let probe = XzFile { check_id: check, blocks: vec![blk.clone()], ..Default::default() };
                        let (_, spans) = xz::build(&probe);
                        let hdr: usize = spans.iter().filter(|s| s.0.starts_with("block0.header")).map(|s| s.2 - s.1).sum();
                        (1024 - hdr) / 4
                    }
                };
                blocks.push(blk);
            }
            let f = XzFile { check_id: check, blocks, ..Default::default() };
            ctx.eval(1);
            if nb >= 2 || pad > 0 || cs || us {
                ctx.nontriv(1);
            }
            let label = format!("xz file: {} block(s), check {}, csize field {}, usize field {}, header pad class {}, residue {}, payload kind {}", nb, check, cs, us, pad, res, kind);
            check_file(&ctx, &f, &label);
            if tier == Tier::Thorough && i % 3 == 0 {
                let (bytes, _) = xz::build(&f);
                let want: Vec<u8> = f.blocks.iter().flat_map(|b| b.plain.clone()).collect();
                match lzma::decompress(&bytes) {
                    Ok(o) if o == want => {}
                    other => ctx.machinery_error(&format!("liblzma rejects a reference-written file ({}): {:?}", label, other.map(|o| o.len()))),
                }
            }
            if i % 257 == 0 {
                let (bytes, _) = xz::build(&f);
                ctx.sample(json!({"file": label, "bytes": brief_bytes(&bytes), "len": bytes.len()}));
            }
        });
        ctx.scope_done(name, cells.len() as u64, t0, "full container grid");
    }
    // ---------------------------------------------------------------- heterogeneous blocks: header sizes that shrink / grow from block to block
    {
        let name = "heterogeneous-blocks";
        if ctx.may_start(name) {
            let t0 = Instant::now();
            let kinds: Vec<(bool, bool, usize)> = vec![(false, false, 0), (true, false, 0), (false, true, 1), (true, true, 0), (false, false, 3), (true, true, 6), (false, false, 250)];
            let nk = kinds.len();
            let total = crate::explore::count_upto(nk, 3);
            par_for(total * 3, |i| {
                let check = [0u8, 1, 4][(i % 3) as usize];
                let seq = crate::explore::nth_seq(nk, 3, i / 3);
                if seq.is_empty() {
                    return;
                }
                let blocks: Vec<Block> = seq
                    .iter()
                    .enumerate()
                    .map(|(b, &k)| {
                        let (cs, us, pad) = kinds[k];
                        let (p, plain) = payload((b + k) % 3, (b + 2 * k) % 4, b * 3 + k);
                        Block { payload: p, plain, with_csize: cs, with_usize: us, extra_pad4: pad, ..Default::default() }
                    })
                    .collect();
                let f = XzFile { check_id: check, blocks, ..Default::default() };
                ctx.eval(1);
                ctx.nontriv(1);
                check_file(&ctx, &f, &format!("xz file with per-block header kinds {:?} (csize field, usize field, extra padding/4), check {}", seq.iter().map(|&k| kinds[k]).collect::<Vec<_>>(), check));
            });
            ctx.scope_done(name, total * 3, t0, "every sequence of <= 3 blocks over 7 header kinds (sizes 12..1012 bytes, shrinking and growing)");
        }
    }
    // ---------------------------------------------------------------- block content lengths that change the width of the size fields
    // (so that the block header has 0, 1, 2 or 3 padding bytes) and empty block contents, with every check type
    {
        let name = "size-field-widths-and-empty-blocks";
        if ctx.may_start(name) {
            let t0 = Instant::now();
            let lens: Vec<usize> = vec![0, 1, 2, 120, 123, 124, 126, 127, 128, 130, 16379, 16380, 16383, 16384, 16390];
            let mut items = Vec::new();
            for &a in &lens {
                for &b in &[0usize, 5, 126, 16383] {
                    for check in [0u8, 1, 4] {
                        for (cs, us) in [(false, false), (true, false), (false, true), (true, true)] {
                            items.push((a, b, check, cs, us));
                        }
                    }
                }
            }
            let pads = std::sync::Mutex::new(std::collections::BTreeSet::new());
            par_for(items.len() as u64, |i| {
                let (a, b, check, cs, us) = items[i as usize];
                let blocks: Vec<Block> = [a, b]
                    .iter()
                    .enumerate()
                    .map(|(k, &n)| {
                        let (p, plain) = stored_payload(n, k + i as usize % 5);
                        Block { payload: p, plain, with_csize: cs, with_usize: us, ..Default::default() }
                    })
                    .collect();
                let f = XzFile { check_id: check, blocks, ..Default::default() };
                let (_, spans) = xz::build(&f);
                for s in spans.iter().filter(|s| s.0.ends_with("header_pad")) {
                    pads.lock().unwrap().insert(s.2 - s.1);
                }
                ctx.eval(1);
                ctx.nontriv(1);
                check_file(&ctx, &f, &format!("xz file with blocks of {} and {} content bytes, check {}, csize field {}, usize field {}", a, b, check, cs, us));
            });
            ctx.set_extra("block_header_padding_lengths_covered", json!(pads.lock().unwrap().iter().collect::<Vec<_>>()));
            ctx.scope_done(name, items.len() as u64, t0, "content lengths around the 7-bit boundaries of both size fields, incl. empty blocks");
        }
    }
    // ---------------------------------------------------------------- many blocks: the index's record count needs 2 bytes from 128 on
    {
        let name = "many-blocks";
        if ctx.may_start(name) {
            let t0 = Instant::now();
            // (40000 blocks: the index's record list is longer than 64 KiB)
            let counts: Vec<usize> = tier.pick(vec![4, 127, 128, 129, 300, 40000], vec![4, 5, 16, 127, 128, 129, 255, 256, 257, 300, 1000, 16383, 16384, 16385, 40000, 70000]);
            par_for(counts.len() as u64 * 3, |i| {
                let nb = counts[i as usize / 3];
                let check = [0u8, 1, 4][i as usize % 3];
                let blocks: Vec<Block> = (0..nb)
                    .map(|b| {
                        let (p, plain) = stored_payload(b % 3, b);
                        Block { payload: p, plain, with_csize: b % 2 == 0, with_usize: b % 5 == 0, ..Default::default() }
                    })
                    .collect();
                let f = XzFile { check_id: check, blocks, ..Default::default() };
                ctx.eval(1);
                ctx.nontriv(1);
                check_file(&ctx, &f, &format!("xz file with {} blocks of 0..2 content bytes, check {}", nb, check));
            });
            // one block far larger than the dictionary its filter announces (history older than the dictionary may be dropped
            // by a decoder, but never data): uncompressed chunks without a dictionary reset, then a compressed one
            let bigs: Vec<(u8, usize)> = tier.pick(vec![(0u8, 2_600_000usize), (16, 4_300_000)], vec![(0u8, 2_600_000usize), (16, 4_300_000), (0, 9_000_000), (18, 20_000_000)]);
            par_for(bigs.len() as u64, |i| {
                let (prop, n) = bigs[i as usize];
                let blob: Vec<u8> = (0..n as u32).map(|k| (k.wrapping_mul(2246822519) >> 19) as u8).collect();
                let mut cs: Vec<Chunk> = blob.chunks(65536).enumerate().map(|(k, c)| Chunk::U { reset: k == 0, data: c.to_vec() }).collect();
                cs.push(Chunk::C { class: 2, props: (3, 0, 2), prog: vec![Sym::M(3, 50), Sym::L(7), Sym::M(4000, 20)] });
                let w = lzma2::write(&cs);
                let f = XzFile { check_id: 1, blocks: vec![Block { payload: w.bytes.clone(), plain: w.expect.clone(), o_filters: Some(vec![(xz::mbi(0x21), xz::mbi(1), vec![prop])]), ..Default::default() }], ..Default::default() };
                ctx.eval(1);
                ctx.nontriv(1);
                check_file(&ctx, &f, &format!("xz block of {} bytes in {} chunks without dictionary reset, dictionary property byte {}", w.expect.len(), cs.len(), prop));
            });
            // every sequence of <= 3 blocks over content sizes on both sides of 64 KiB (the order of blocks in the output
            // is the order in the file, whatever their sizes)
            let szs: Vec<usize> = vec![0, 5, 65535, 65536, 70000];
            let mut seqs: Vec<Vec<usize>> = Vec::new();
            for l in 1..=3usize {
                let mut idx = vec![0usize; l];
                loop {
                    seqs.push(idx.iter().map(|k| szs[*k]).collect());
                    let mut p = 0;
                    while p < l {
                        idx[p] += 1;
                        if idx[p] < szs.len() {
                            break;
                        }
                        idx[p] = 0;
                        p += 1;
                    }
                    if p == l {
                        break;
                    }
                }
            }
            par_for(seqs.len() as u64, |i| {
                let sq = &seqs[i as usize];
                let blocks: Vec<Block> = sq
                    .iter()
                    .enumerate()
                    .map(|(b, n)| {
                        let (p, plain) = stored_payload(*n, b * 37 + 11);
                        Block { payload: p, plain, with_csize: (i + b as u64) % 2 == 0, with_usize: (i + b as u64) % 3 == 0, ..Default::default() }
                    })
                    .collect();
                let f = XzFile { check_id: [1u8, 4, 0][i as usize % 3], blocks, ..Default::default() };
                ctx.eval(1);
                ctx.nontriv(1);
                check_file(&ctx, &f, &format!("xz file with blocks of {:?} content bytes", sq));
            });
            // a block whose LZMA2 data holds a compressed chunk of exactly 65536 (65535) bytes - the largest its 16-bit size
            // field can announce
            for want in [65536usize, 65535] {
                if let Some(q) = super::c02::literal_program_with_packed_size(want) {
                    let w = lzma2::write(&[Chunk::C { class: 3, props: (0, 0, 0), prog: q }, Chunk::U { reset: false, data: vec![1, 2, 3] }]);
                    for (cs_, us_) in [(false, false), (true, true)] {
                        let f = XzFile { check_id: 4, blocks: vec![Block { payload: w.bytes.clone(), plain: w.expect.clone(), with_csize: cs_, with_usize: us_, ..Default::default() }, Block { payload: vec![1, 0, 0, 7, 0], plain: vec![7], ..Default::default() }], ..Default::default() };
                        ctx.eval(1);
                        ctx.nontriv(1);
                        check_file(&ctx, &f, &format!("xz block with an LZMA chunk of exactly {} compressed bytes (size fields {})", want, cs_));
                    }
                } else {
                    ctx.machinery_error(&format!("could not construct a chunk with compressed size exactly {}", want));
                }
            }
            // consecutive blocks that agree in one index field and differ in the other (same unpadded size, 5 / 2 / 5 / 2
            // content bytes; same content size, different unpadded sizes)
            {
                let st = |parts: &[&[u8]]| -> (Vec<u8>, Vec<u8>) {
                    let cs: Vec<Chunk> = parts.iter().enumerate().map(|(k, d)| Chunk::U { reset: k == 0, data: d.to_vec() }).collect();
                    let w = lzma2::write(&cs);
                    (w.bytes, w.expect)
                };
                let mk = |ps: Vec<(Vec<u8>, Vec<u8>)>| -> Vec<Block> { ps.into_iter().map(|(p, plain)| Block { payload: p, plain, ..Default::default() }).collect() };
                for check in [0u8, 1, 4] {
                    for nb in [2usize, 3, 4] {
                        let all = vec![st(&[&b"abcde"[..]]), st(&[&b"f"[..], &b"g"[..]]), st(&[&b"hijkl"[..]]), st(&[&b"m"[..], &b"n"[..]])];
                        let f = XzFile { check_id: check, blocks: mk(all[..nb].to_vec()), ..Default::default() };
                        ctx.eval(1);
                        ctx.nontriv(1);
                        check_file(&ctx, &f, &format!("xz file with {} blocks of equal unpadded size and 5/2/5/2 content bytes, check {}", nb, check));
                    }
                    let f = XzFile { check_id: check, blocks: mk(vec![st(&[&b"abcd"[..]]), st(&[&b"ef"[..], &b"gh"[..]]), st(&[&b"i"[..], &b"j"[..], &b"k"[..], &b"l"[..]])]), ..Default::default() };
                    ctx.eval(1);
                    ctx.nontriv(1);
                    check_file(&ctx, &f, &format!("xz file with 3 blocks of equal content size and different unpadded sizes, check {}", check));
                }
            }
            ctx.scope_done(name, counts.len() as u64 * 3 + bigs.len() as u64 + seqs.len() as u64 + 12, t0, "block counts around 2^7 (2^8, 2^14, > 64 KiB of index records); blocks far larger than their dictionary; every sequence of <= 3 blocks over sizes {0, 5, 65535, 65536, 70000}");
        }
    }
    // ---------------------------------------------------------------- every legal LZMA2 dictionary-size property byte
    {
        let name = "lzma2-dict-property-0..40";
        if ctx.may_start(name) {
            let t0 = Instant::now();
            par_for(41 * 2, |i| {
                let prop = (i / 2) as u8;
                let nb = 1 + (i % 2) as usize;
                let blocks: Vec<Block> = (0..nb)
                    .map(|b| {
                        let (p, plain) = payload(b % 3, b % 4, b + prop as usize);
                        Block { payload: p, plain, o_filters: Some(vec![(xz::mbi(0x21), xz::mbi(1), vec![prop])]), ..Default::default() }
                    })
                    .collect();
                let f = XzFile { check_id: 1, blocks, ..Default::default() };
                ctx.eval(1);
                ctx.nontriv(1);
                check_file(&ctx, &f, &format!("xz file whose LZMA2 filter property byte is {} ({} block(s))", prop, nb));
            });
            // copies at exactly the announced dictionary size (and one less), after more than a dictionary of output
            let small: Vec<(u8, u32)> = vec![(0, 4096), (1, 6144), (2, 8192), (3, 12288), (8, 65536)];
            par_for(small.len() as u64, |i| {
                let (prop, dict) = small[i as usize];
                let mut prog: Vec<Sym> = (0..400u32).map(|k| Sym::L((k * 7 + k / 11 + prop as u32) as u8)).collect();
                let mut produced = 400u32;
                let mut k = 0u32;
                while produced < dict + 300 {
                    prog.push(Sym::M(1 + (k * 53) % 390, 270));
                    produced += 270;
                    k += 1;
                }
                prog.extend([Sym::M(dict, 9), Sym::L(0x31), Sym::M(dict - 1, 4), Sym::L(0x32), Sym::R(1, 3), Sym::M(dict, 273)]);
                let w = lzma2::write(&[Chunk::C { class: 3, props: (3, 0, 2), prog }]);
                let f = XzFile { check_id: 4, blocks: vec![Block { payload: w.bytes.clone(), plain: w.expect.clone(), with_usize: true, o_filters: Some(vec![(xz::mbi(0x21), xz::mbi(1), vec![prop])]), ..Default::default() }], ..Default::default() };
                ctx.eval(1);
                ctx.nontriv(1);
                check_file(&ctx, &f, &format!("xz block announcing a {}-byte dictionary (property byte {}) with copies at distance {} and {}", dict, prop, dict, dict - 1));
            });
            ctx.scope_done(name, 82 + small.len() as u64, t0, "dictionary size byte 0..=40 (40 = 4 GiB - 1); copies at exactly the announced size");
        }
    }
    // ---------------------------------------------------------------- multibyte integer widths as true sizes
    {
        let name = "multibyte-widths";
        if ctx.may_start(name) {
            let t0 = Instant::now();
            let mut sizes: Vec<usize> = vec![1, 127, 128, 16383, 16384, (1 << 21) - 1, 1 << 21, (1 << 21) + 1, (1 << 25) + 1];
            if tier == Tier::Thorough {
                sizes.push((1 << 28) - 1);
                sizes.push(1 << 28);
            }
            par_for(sizes.len() as u64, |i| {
                let n = sizes[i as usize];
                // highly compressible plaintext of exactly n bytes, split into LZMA2 chunks of <= 2 MiB
                let mut cs: Vec<Chunk> = Vec::new();
                let mut left = n;
                let mut first = true;
                while left > 0 {
                    let take = left.min(1 << 21);
                    let mut p: Vec<Sym> = vec![Sym::L(0x5A)];
                    let mut got = 1usize;
                    while got + 273 <= take {
                        p.push(Sym::M(1, 273));
                        got += 273;
                    }
                    while got < take {
                        let l = (take - got).min(273);
                        if l >= 2 {
                            p.push(Sym::M(1, l as u32));
                            got += l;
                        } else {
                            p.push(Sym::L(0x5A));
                            got += 1;
                        }
                    }
                    cs.push(Chunk::C { class: if first { 3 } else { 1 }, props: (3, 0, 2), prog: p });
                    first = false;
                    left -= take;
                }
                let w = lzma2::write(&cs);
                assert!(w.ill.is_none(), "{:?}", w.ill);
                assert_eq!(w.expect.len(), n);
                // second variant: stored chunks (compressed size needs the wide encoding too)
                let mut files = vec![("compressed", w.bytes.clone(), w.expect.clone())];
                if n <= (1 << 21) + 1 {
                    let data: Vec<u8> = (0..n).map(|i| (i as u32).wrapping_mul(2654435761).to_le_bytes()[3]).collect();
                    let cs2: Vec<Chunk> = data.chunks(65536).enumerate().map(|(k, c)| Chunk::U { reset: k == 0, data: c.to_vec() }).collect();
                    let w2 = lzma2::write(&cs2);
                    files.push(("stored", w2.bytes, w2.expect));
                }
                for (kind, payload, plain) in files {
                    for check in [1u8, 4] {
                        let blk = Block { payload: payload.clone(), plain: plain.clone(), with_csize: true, with_usize: true, ..Default::default() };
                        let f = XzFile { check_id: check, blocks: vec![blk.clone(), Block { payload: vec![1, 0, 0, 7, 0], plain: vec![7], ..Default::default() }], ..Default::default() };
                        ctx.eval(1);
                        ctx.nontriv(1);
                        check_file(&ctx, &f, &format!("xz file with a {} block of {} bytes (uncompressed size needs {} multibyte bytes), check {}", kind, n, xz::mbi(n as u64).len(), check));
                    }
                }
            });
            ctx.scope_done(name, sizes.len() as u64 * 4, t0, "true sizes at every 7-bit boundary up to the tier's limit");
        }
    }
    ctx.finish()
}

//! C13 — results do not depend on how the input reader fragments its data (E3, deviation = one cut).
use super::c03::payload;
use super::corpus;
use crate::cases::{run_case, Case, Fmt, Hex, Opts, Rd, Sk};
use crate::common::{brief_bytes, Ctx, Tier};
use crate::explore::{cut_set_from_mask, cut_sets, par_for};
use crate::refmodel::enc::Sym;
use crate::refmodel::lzma2::{self, Chunk};
use crate::refmodel::xz::{self, Block, XzFile};
use serde_json::json;
use std::sync::atomic::Ordering;
use std::time::Instant;

pub struct In {
    pub label: String,
    pub fmt: Fmt,
    pub opts: Opts,
    pub bytes: Vec<u8>,
}

pub fn inputs(seed: u64, tier: Tier) -> Vec<In> {
    let mut valid: Vec<In> = Vec::new();
    for it in corpus::valid_items(seed, false) {
        if it.name.starts_with("long-symbols-300+marker") && tier == Tier::Quick {
            continue;
        }
        for k in corpus::ALL_OPTS {
            if let Some(b) = it.build(k) {
                if b.bytes.len() <= 330 {
                    valid.push(In { label: format!("lzma {} [{:?}]", it.name, k), fmt: Fmt::Lzma, opts: b.opts, bytes: b.bytes });
                }
            }
        }
    }
    // LZMA2
    let seqs: Vec<Vec<Chunk>> = vec![
        vec![Chunk::U { reset: true, data: b"hello fragmented world".to_vec() }],
        vec![
            Chunk::U { reset: true, data: b"abcdefgh".to_vec() },
            Chunk::C { class: 2, props: (1, 3, 4), prog: vec![Sym::M(8, 5), Sym::L(1), Sym::S, Sym::R(0, 3)] },
            Chunk::C { class: 0, props: (0, 0, 0), prog: vec![Sym::S, Sym::L(7), Sym::R(0, 2), Sym::M(3, 9)] },
            Chunk::U { reset: false, data: b"xyz".to_vec() },
            Chunk::C { class: 3, props: (0, 0, 0), prog: vec![Sym::L(5), Sym::M(1, 20)] },
        ],
        vec![Chunk::C { class: 3, props: (3, 0, 2), prog: (0..40u32).map(|i| Sym::L(((i * 73 + 5) & 0xFF) as u8)).collect() }],
    ];
    for (i, cs) in seqs.iter().enumerate() {
        let w = lzma2::write(cs);
        valid.push(In { label: format!("lzma2 sequence {}", i), fmt: Fmt::Lzma2, opts: Opts::default(), bytes: w.bytes });
    }
    // XZ: several blocks, header padding (zero-padding scan over refills), all three checks
    for (nb, check, sizes, pad) in [(1usize, 1u8, false, 0usize), (2, 4, true, 3), (3, 0, true, 1), (0, 1, false, 0), (1, 4, false, 9)] {
        let blocks: Vec<Block> = (0..nb)
            .map(|b| {
                let (p, plain) = payload(b % 3, (b + 2) % 4, b + nb);
                Block { payload: p, plain, with_csize: sizes, with_usize: sizes, extra_pad4: pad, ..Default::default() }
            })
            .collect();
        let f = XzFile { check_id: check, blocks, ..Default::default() };
        valid.push(In { label: format!("xz {} block(s) check {} sizes {} pad {}", nb, check, sizes, pad), fmt: Fmt::Xz, opts: Opts::default(), bytes: xz::build(&f).0 });
    }
    // invalid neighbours: truncations and substitutions at spread positions
    let mut all: Vec<In> = Vec::new();
    // invalid LZMA2 streams that are only caught at the END of a compressed chunk (declared sizes vs. payload, last
    // payload byte altered, spare byte inside the declared compressed size), alone and inside an XZ block
    {
        let c3 = |prog: Vec<Sym>| Chunk::C { class: 3, props: (3, 0, 2), prog };
        let bases: Vec<Vec<Chunk>> = vec![
            vec![c3(vec![Sym::L(0x61); 300])],
            vec![c3(vec![Sym::L(1), Sym::L(2), Sym::L(3), Sym::M(2, 3), Sym::L(4)]), Chunk::U { reset: false, data: vec![7, 8, 9] }],
            vec![Chunk::U { reset: true, data: b"abcdefgh".to_vec() }, Chunk::C { class: 2, props: (1, 3, 4), prog: vec![Sym::M(8, 5), Sym::L(1), Sym::S, Sym::R(0, 3)] }, Chunk::U { reset: false, data: vec![1] }],
            // (earlier chunks have produced output when a later chunk - with and without a dictionary reset - is refused)
            vec![Chunk::U { reset: true, data: b"ijklmnop".to_vec() }, c3(vec![Sym::L(5), Sym::L(6), Sym::M(1, 4)]), Chunk::C { class: 2, props: (0, 0, 0), prog: vec![Sym::M(2, 3), Sym::L(9)] }],
        ];
        for cs in &bases {
            let w = lzma2::write(cs);
            for (ci, l) in w.layout.iter().enumerate() {
                if !l.compressed {
                    continue;
                }
                let mut muts: Vec<(String, Vec<u8>)> = Vec::new();
                // declared uncompressed size one less
                if l.unpacked > 1 {
                    let mut m = w.bytes.clone();
                    let nv = l.unpacked - 2;
                    m[l.control_off] = (m[l.control_off] & 0xE0) | ((nv >> 16) & 0x1F) as u8;
                    m[l.unpacked_off] = (nv >> 8) as u8;
                    m[l.unpacked_off + 1] = nv as u8;
                    muts.push(("declared uncompressed size - 1".into(), m));
                }
                // last payload byte altered
                for x in [0x01u8, 0x80] {
                    let mut m = w.bytes.clone();
                    m[l.body_off + l.body_len - 1] ^= x;
                    muts.push((format!("last payload byte ^= {:#04x}", x), m));
                }
                // illegal properties byte (what has been delivered to the sink by then must not depend on the reader either)
                if let Some(po) = l.props_off {
                    for v in [225u8, 255, 4 * 9 + 8 /* lc 8, lp 4 */, 45 /* lc 0, lp 5 */] {
                        let mut m = w.bytes.clone();
                        m[po] = v;
                        muts.push((format!("properties byte := {}", v), m));
                    }
                }
                // spare byte inside the declared compressed size
                {
                    let mut m = w.bytes[..l.body_off + l.body_len].to_vec();
                    m.push(0);
                    m.extend_from_slice(&w.bytes[l.body_off + l.body_len..]);
                    let pk = l.packed_off.unwrap();
                    let nv = l.body_len; // (len + 1) - 1
                    m[pk] = (nv >> 8) as u8;
                    m[pk + 1] = nv as u8;
                    muts.push(("spare byte inside the declared compressed size".into(), m));
                }
                for (what, m) in muts {
                    all.push(In { label: format!("lzma2 [{}] chunk {} {}", lzma2::chunks_str(cs), ci, what), fmt: Fmt::Lzma2, opts: Opts::default(), bytes: m.clone() });
                    let f = XzFile { check_id: 0, blocks: vec![Block { payload: m, plain: w.expect.clone(), ..Default::default() }], ..Default::default() };
                    all.push(In { label: format!("xz block with lzma2 [{}] chunk {} {}", lzma2::chunks_str(cs), ci, what), fmt: Fmt::Xz, opts: Opts::default(), bytes: xz::build(&f).0 });
                }
            }
        }
    }
    // stored chunks in mid-stream (with and without dictionary reset, 1..9 bytes) followed by copies that reach into them
    // (valid), just before them across a dictionary reset (invalid: the verdict and what has been delivered by then must
    // not depend on whether the stored chunk happened to be visible in one piece), and by a later framing error
    {
        let head = |n: u8| Chunk::C { class: 3, props: (3, 0, 2), prog: (1..=n).map(Sym::L).chain([Sym::M(5, 3)]).collect() };
        for ulen in [1usize, 2, 3, 9] {
            let data: Vec<u8> = (0..ulen).map(|i| 0x70 + i as u8).collect();
            for reset in [true, false] {
                let tails: Vec<(&str, Chunk)> = vec![
                    ("copy from inside the stored chunk", Chunk::C { class: 2, props: (3, 0, 2), prog: vec![Sym::M(ulen as u32, 3), Sym::L(0x42)] }),
                    ("copy reaching one byte before the stored chunk", Chunk::C { class: 2, props: (3, 0, 2), prog: vec![Sym::M(ulen as u32 + 1, 2), Sym::L(0x42)] }),
                    ("copy reaching far before the stored chunk", Chunk::C { class: 2, props: (0, 0, 0), prog: vec![Sym::L(0x41), Sym::M(ulen as u32 + 6, 4)] }),
                    ("inherited state, rep0 copy", Chunk::C { class: 0, props: (0, 0, 0), prog: vec![Sym::R(0, 2), Sym::L(0x43)] }),
                    ("inherited state, short rep", Chunk::C { class: 1, props: (0, 0, 0), prog: vec![Sym::L(0x44), Sym::M(ulen as u32 + 2, 2)] }),
                ];
                for (what, tail) in tails {
                    for lead in [vec![head(6)], vec![Chunk::U { reset: true, data: b"lead".to_vec() }, head(3)]] {
                        let mut cs = lead.clone();
                        cs.push(Chunk::U { reset, data: data.clone() });
                        cs.push(tail.clone());
                        let w = lzma2::write(&cs);
                        let label = format!("lzma2 [{}] ({})", lzma2::chunks_str(&cs), what);
                        all.push(In { label: label.clone(), fmt: Fmt::Lzma2, opts: Opts::default(), bytes: w.bytes.clone() });
                        // the same followed by an illegal control byte instead of the end byte
                        let mut bad = w.bytes.clone();
                        let l = bad.len();
                        bad[l - 1] = 0x03;
                        bad.extend_from_slice(&[0, 0, 0]);
                        all.push(In { label: format!("{} then control byte 0x03", label), fmt: Fmt::Lzma2, opts: Opts::default(), bytes: bad });
                        let f = XzFile { check_id: 1, blocks: vec![Block { payload: w.bytes.clone(), plain: w.expect.clone(), ..Default::default() }], ..Default::default() };
                        all.push(In { label: format!("xz block with {}", label), fmt: Fmt::Xz, opts: Opts::default(), bytes: xz::build(&f).0 });
                    }
                }
            }
        }
    }
    // invalid XZ files whose enclosing CRCs are CORRECT (only the field's own validation can object): padding bytes,
    // sizes, counts - decisions that are taken from the currently visible buffer
    {
        let blocks: Vec<Block> = (0..2)
            .map(|b| {
                let (p, plain) = payload(b % 3, (b + 1) % 4, b + 5);
                Block { payload: p, plain, with_csize: true, with_usize: true, extra_pad4: 4, ..Default::default() }
            })
            .collect();
        let f = XzFile { check_id: 1, blocks, ..Default::default() };
        let keep = ["padding", "record count", "appended", "index indicator", "declared"];
        let mut k = 0usize;
        for (what, g) in super::c06::field_mutants(&f) {
            if keep.iter().any(|w| what.contains(w)) {
                k += 1;
                if what.contains("padding") || what.contains("appended") || k % tier.pick(9, 3) == 0 {
                    all.push(In { label: format!("xz CRC-repaired mutant: {}", what), fmt: Fmt::Xz, opts: Opts::default(), bytes: xz::build(&g).0 });
                }
            }
        }
    }
    // bytes after the stream footer (null bytes in multiples of four are "stream padding" in the format; whatever the
    // decoder thinks of them, it thinks the same under every fragmentation)
    {
        let (p, plain) = payload(0, 1, 9);
        let (one, _) = xz::build(&XzFile { check_id: 1, blocks: vec![Block { payload: p, plain, ..Default::default() }], ..Default::default() });
        for tr in [vec![0u8; 4], vec![0; 8], vec![0; 12], vec![0; 16], vec![0; 5], vec![0, 0, 0, 1], vec![0; 64]] {
            let mut x = one.clone();
            x.extend_from_slice(&tr);
            all.push(In { label: format!("xz file followed by {} byte(s) {}", tr.len(), crate::common::brief_bytes(&tr)), fmt: Fmt::Xz, opts: Opts::default(), bytes: x.clone() });
            x.extend_from_slice(&one);
            all.push(In { label: format!("xz file followed by {} byte(s) {} and the file again", tr.len(), crate::common::brief_bytes(&tr)), fmt: Fmt::Xz, opts: Opts::default(), bytes: x });
        }
    }
    // XZ blocks whose declared compressed size (and the index, consistently) covers spare bytes after the LZMA2 end byte:
    // whether the spare bytes are noticed must not depend on how much of the block a refill happens to expose
    for (extra, val) in [(1usize, 0u8), (4, 0), (4, 0x5A), (7, 1), (13, 0)] {
        for check in [0u8, 4] {
            let (mut p, plain) = payload(1, 0, extra + check as usize);
            p.extend(std::iter::repeat(val).take(extra));
            let f = XzFile { check_id: check, blocks: vec![Block { payload: p, plain, with_csize: true, with_usize: check == 4, ..Default::default() }], ..Default::default() };
            all.push(In { label: format!("xz block declaring {} spare byte(s) {:#04x} after the LZMA2 end byte (sizes and index consistent), check {}", extra, val, check), fmt: Fmt::Xz, opts: Opts::default(), bytes: xz::build(&f).0 });
        }
    }
    // index integers written with more bytes than needed (9 bytes: the longest legal; 10 bytes: over-long), index CRC,
    // padding and backward size consistent: whatever the verdict, it is the same under every fragmentation
    {
        let (p, plain) = payload(0, 1, 3);
        let base = XzFile { check_id: 1, blocks: vec![Block { payload: p, plain, ..Default::default() }], ..Default::default() };
        let (_, spans) = xz::build(&base);
        let _ = spans;
        for nbytes in [2usize, 5, 9, 10] {
            let mut g = base.clone();
            g.o_index_count = Some(xz::mbi_n(1, nbytes));
            all.push(In { label: format!("xz index record count written in {} bytes", nbytes), fmt: Fmt::Xz, opts: Opts::default(), bytes: xz::build(&g).0 });
            let (b0, _) = xz::build(&base);
            // record sizes: take the true values from a strict parse of the base and re-encode them wide
            if let xz::Vx::Ok(_) = xz::strict_parse(&b0) {
                let unpadded = {
                    // header (12) + payload + check (4)
                    12 + base.blocks[0].payload.len() as u64 + 4
                };
                let mut g2 = base.clone();
                g2.o_records = Some(vec![(xz::mbi_n(unpadded, nbytes), xz::mbi_n(base.blocks[0].plain.len() as u64, nbytes))]);
                all.push(In { label: format!("xz index record sizes written in {} bytes each", nbytes), fmt: Fmt::Xz, opts: Opts::default(), bytes: xz::build(&g2).0 });
            }
        }
    }
    for v in valid {
        let n = v.bytes.len();
        let npos = tier.pick(5usize, 12usize);
        for j in 1..=npos {
            let p = (n * j) / (npos + 1);
            if p == 0 || p >= n {
                continue;
            }
            all.push(In { label: format!("{} truncated to {}", v.label, p), fmt: v.fmt, opts: v.opts, bytes: v.bytes[..p].to_vec() });
            let mut m = v.bytes.clone();
            m[p] ^= 0x21;
            all.push(In { label: format!("{} byte {} ^= 0x21", v.label, p), fmt: v.fmt, opts: v.opts, bytes: m });
        }
        // trailing zeros / garbage (end-of-input detection, padding scans)
        for t in [vec![0u8; 5], vec![0, 0, 0, 1]] {
            let mut m = v.bytes.clone();
            m.extend_from_slice(&t);
            all.push(In { label: format!("{} + trailing {:02x?}", v.label, t), fmt: v.fmt, opts: v.opts, bytes: m });
        }
        all.push(v);
    }
    all
}

pub fn run(tier: Tier) -> i32 {
    let ctx = Ctx::new("C13", "exploration", tier);
    let kmax = tier.pick(2usize, 3usize);
    let full_n = tier.pick(14usize, 18usize);
    ctx.set_rule(&format!("E3, deviation-bounded: each input (valid LZMA / LZMA2 / XZ streams, their truncations, byte substitutions and trailing-byte variants) is decoded through a BufRead source that never exposes or returns data across a cut; ALL cut sets with <= {} cuts are run (all 2^(n-1) cut sets for inputs up to {} bytes), plus byte-at-a-time, every period 1..n and std BufReader of every capacity 1..64. Oracle: verdict and sink bytes equal the unfragmented run; on success also the bytes consumed. distinct_nontrivial = fragmented runs on inputs that contain zero padding / end-of-input decisions (XZ) or are invalid.", kmax, full_n));
    let ins = inputs(ctx.seed, tier);
    let t0 = Instant::now();
    // thorough: 3 cuts only for inputs <= 120 bytes
    let runs = std::sync::atomic::AtomicU64::new(0);
    par_for(ins.len() as u64, |i| {
        if ctx.over_budget() {
            ctx.capped.store(true, Ordering::SeqCst);
            return;
        }
        let inp = &ins[i as usize];
        let n = inp.bytes.len();
        let mk = |rd: Rd| Case::Dec { fmt: inp.fmt, opts: inp.opts, input: Hex(inp.bytes.clone()), rd, sk: Sk::default() };
        let base = run_case(&mk(Rd::default()));
        let mut rds: Vec<Rd> = Vec::new();
        let k = if n > 120 { kmax.min(2) } else { kmax };
        if n <= full_n && n >= 2 {
            for mask in 0..(1u64 << (n - 1)) {
                rds.push(Rd { cuts: cut_set_from_mask(n, mask), ..Rd::default() });
            }
        } else {
            for cs in cut_sets(n, k) {
                rds.push(Rd { cuts: cs, ..Rd::default() });
            }
        }
        for p in 1..=n.max(1) {
            rds.push(Rd { period: p, ..Rd::default() });
        }
        for c in 1..=64usize {
            rds.push(Rd { bufreader: c, ..Rd::default() });
            if c <= 4 {
                rds.push(Rd { bufreader: c, period: 1, ..Rd::default() });
                rds.push(Rd { bufreader: c, period: 3, ..Rd::default() });
            }
        }
        let nontriv = inp.fmt == Fmt::Xz || !base.v.is_ok();
        let mut local = 0u64;
        for rd in rds {
            let case = mk(rd);
            let o = run_case(&case);
            local += 1;
            let same = o.v.class() == base.v.class() && o.out == base.out && (!base.v.is_ok() || o.consumed == base.consumed);
            if !same {
                ctx.violation(&case, &format!("{}: same as the unfragmented run: verdict {} output {} ({} bytes){}", inp.label, base.v.class(), brief_bytes(&base.out.0), base.out.0.len(), if base.v.is_ok() { format!(", {} bytes consumed", base.consumed) } else { String::new() }), &o, None);
                break;
            }
        }
        runs.fetch_add(local, Ordering::Relaxed);
        ctx.eval(local);
        if nontriv {
            ctx.nontriv(local);
        }
        if i % 29 == 0 {
            ctx.sample(json!({"input": inp.label, "len": n, "unfragmented": {"verdict": base.v.class(), "out_len": base.out.0.len(), "consumed": base.consumed}, "fragmented_runs": local}));
        }
    });
    // ---------------------------------------------------------------- adversarially trained symbols: every bit of one match is
    // improbable (is_match, is_rep, length tree, slot tree, align tree), so that a single symbol needs 13+ input bytes;
    // all fragmentations of the region around those symbols (fast paths that assume "n bytes are enough" live there)
    {
        let reps = tier.pick(110usize, 180usize);
        let (prog, first) = corpus::adversarial_program(reps);
        let t1 = Instant::now();
        let mut jobs: Vec<(String, Fmt, Opts, Vec<u8>, usize, usize)> = Vec::new();
        for (marker, sized) in [(true, false), (false, true)] {
            let it = corpus::Item { name: format!("adversarial-{}", reps), lc: 0, lp: 0, pb: 0, dict: 1 << 20, prog: prog.clone(), marker, sized };
            for k in [corpus::OptKind::Header, corpus::OptKind::ProvidedSome] {
                if let Some(b) = it.build(k) {
                    let lo = b.table[first - 1].0.saturating_sub(6);
                    jobs.push((format!("lzma {} [{:?}] marker={} (longest symbol {} input bytes)", it.name, k, marker, b.max_symbol_bytes), Fmt::Lzma, b.opts, b.bytes.clone(), lo, b.bytes.len()));
                }
            }
        }
        // the same payload as an LZMA2 chunk after an uncompressed chunk (raw payload of the sized variant)
        {
            let cs = vec![Chunk::C { class: 3, props: (0, 0, 0), prog: prog.clone() }];
            let w = lzma2::write(&cs);
            if w.ill.is_none() {
                let e = crate::refmodel::enc::encode(0, 0, 0, u64::MAX, &prog);
                let lo = (w.layout[0].body_off + e.table[first - 1].0).saturating_sub(6);
                jobs.push(("lzma2 adversarial chunk".into(), Fmt::Lzma2, Opts::default(), w.bytes.clone(), lo, w.bytes.len()));
            }
        }
        let total = std::sync::atomic::AtomicU64::new(0);
        par_for(jobs.len() as u64, |i| {
            let (label, fmt, opts, bytes, lo, n) = &jobs[i as usize];
            let hi = (*lo + tier.pick(44usize, 60usize)).min(*n);
            let mk = |rd: Rd| Case::Dec { fmt: *fmt, opts: *opts, input: Hex(bytes.clone()), rd, sk: Sk::default() };
            let base = run_case(&mk(Rd::default()));
            let mut rds: Vec<Rd> = Vec::new();
            for a in *lo..hi {
                rds.push(Rd { cuts: vec![a], ..Rd::default() });
                for b in (a + 1)..hi {
                    rds.push(Rd { cuts: vec![a, b], ..Rd::default() });
                    if tier == Tier::Thorough && b - a <= 6 {
                        for c in (b + 1)..(b + 7).min(hi) {
                            rds.push(Rd { cuts: vec![a, b, c], ..Rd::default() });
                        }
                    }
                }
            }
            for p in 1..=40usize {
                rds.push(Rd { period: p, ..Rd::default() });
            }
            for c in 1..=64usize {
                rds.push(Rd { bufreader: c, ..Rd::default() });
            }
            let mut local = 0u64;
            for rd in rds {
                let case = mk(rd);
                let o = run_case(&case);
                local += 1;
                let same = o.v.class() == base.v.class() && o.out == base.out && (!base.v.is_ok() || o.consumed == base.consumed);
                if !same || !base.v.is_ok() {
                    ctx.violation(&case, &format!("{}: Ok and the same as the unfragmented run: verdict {} output {} bytes, {} bytes consumed", label, base.v.class(), base.out.0.len(), base.consumed), &o, None);
                    break;
                }
            }
            total.fetch_add(local, Ordering::Relaxed);
            ctx.eval(local);
            ctx.nontriv(local);
            runs.fetch_add(local, Ordering::Relaxed);
        });
        ctx.scope_done("adversarial-symbol-region", total.load(Ordering::Relaxed), t1, &format!("{} streams; all 1- and 2-cut sets inside the ~44 bytes that hold the expensive symbols, periods 1..40, BufReader 1..64", jobs.len()));
    }
    // ---------------------------------------------------------------- long inputs (linear): chunks and headers larger than any window a
    // small reader exposes - uncompressed LZMA2 chunks of 9000 / 20000 / 65536 bytes with and without dictionary reset
    // after earlier data, 1024-byte block headers (valid, and with one non-zero padding byte far into the padding)
    {
        let t2 = Instant::now();
        let mut big: Vec<In> = Vec::new();
        let blob: Vec<u8> = (0..100_000u32).map(|i| (i.wrapping_mul(2246822519) >> 19) as u8).collect();
        for second_reset in [false, true] {
            let cs = vec![
                Chunk::U { reset: true, data: blob[..100].to_vec() },
                Chunk::U { reset: second_reset, data: blob[100..9100].to_vec() },
                Chunk::C { class: 2, props: (3, 0, 2), prog: vec![Sym::M(5000, 30), Sym::L(1)] },
                Chunk::U { reset: false, data: blob[9100..29100].to_vec() },
                Chunk::U { reset: false, data: blob[29100..29100 + 65536].to_vec() },
                Chunk::C { class: 1, props: (3, 0, 2), prog: vec![Sym::M(70_000, 40), Sym::L(2)] },
            ];
            let w = lzma2::write(&cs);
            big.push(In { label: format!("lzma2 with uncompressed chunks of 9000 / 20000 / 65536 bytes (second chunk resets the dictionary: {})", second_reset), fmt: Fmt::Lzma2, opts: Opts::default(), bytes: w.bytes.clone() });
            let f = XzFile { check_id: 4, blocks: vec![Block { payload: w.bytes, plain: w.expect, with_csize: true, ..Default::default() }], ..Default::default() };
            big.push(In { label: format!("xz block with uncompressed chunks of 9000 / 20000 / 65536 bytes ({})", second_reset), fmt: Fmt::Xz, opts: Opts::default(), bytes: xz::build(&f).0 });
        }
        {
            let (p, plain) = payload(1, 2, 7);
            let base = XzFile { check_id: 1, blocks: vec![Block { payload: p, plain, with_usize: true, extra_pad4: 252, ..Default::default() }], ..Default::default() };
            let (bytes, spans) = xz::build(&base);
            big.push(In { label: "xz with a 1024-byte block header".into(), fmt: Fmt::Xz, opts: Opts::default(), bytes });
            if let Some(sp) = spans.iter().find(|s| s.0 == "block0.header_pad") {
                let plen = sp.2 - sp.1;
                for at in [0usize, 1, 255, 256, 511, 512, 513, 700, plen - 1] {
                    if at < plen {
                        let mut g = base.clone();
                        let mut pad = vec![0u8; plen];
                        pad[at] = 0x40;
                        g.blocks[0].o_header_pad = Some(pad);
                        big.push(In { label: format!("xz with a 1024-byte block header, padding byte {} of {} non-zero (header CRC correct)", at, plen), fmt: Fmt::Xz, opts: Opts::default(), bytes: xz::build(&g).0 });
                    }
                }
            }
        }
        let total = std::sync::atomic::AtomicU64::new(0);
        par_for(big.len() as u64, |i| {
            let inp = &big[i as usize];
            let n = inp.bytes.len();
            let mk = |rd: Rd| Case::Dec { fmt: inp.fmt, opts: inp.opts, input: Hex(inp.bytes.clone()), rd, sk: Sk::default() };
            let base = run_case(&mk(Rd::default()));
            let mut rds: Vec<Rd> = Vec::new();
            for p in [1usize, 2, 3, 7, 64, 511, 512, 513, 1000, 4096, 8191, 8192, 8193, 65535, 65536] {
                if p < n && (p > 3 || n < 40_000) {
                    rds.push(Rd { period: p, ..Rd::default() });
                }
            }
            for c in [1usize, 2, 3, 16, 512, 513, 4096, 8192, 8193, 65536] {
                if c > 3 || n < 40_000 {
                    rds.push(Rd { bufreader: c, ..Rd::default() });
                }
            }
            for c in [5usize, 40, 104, 600, 1100, 5000, 9200, 9300, 20000, 29300, 60000] {
                if c < n {
                    rds.push(Rd { cuts: vec![c], ..Rd::default() });
                    rds.push(Rd { cuts: vec![c, c + 1], ..Rd::default() });
                    rds.push(Rd { cuts: vec![c, (c + 700).min(n - 1)], ..Rd::default() });
                }
            }
            let mut local = 0u64;
            for rd in rds {
                let case = mk(rd);
                let o = run_case(&case);
                local += 1;
                let same = o.v.class() == base.v.class() && o.out == base.out && (!base.v.is_ok() || o.consumed == base.consumed);
                if !same {
                    ctx.violation(&case, &format!("{}: same as the unfragmented run: verdict {} output {} bytes", inp.label, base.v.class(), base.out.0.len()), &o, None);
                    break;
                }
            }
            total.fetch_add(local, Ordering::Relaxed);
            ctx.eval(local);
            ctx.nontriv(local);
            runs.fetch_add(local, Ordering::Relaxed);
        });
        ctx.scope_done("long-inputs", total.load(Ordering::Relaxed), t2, &format!("{} inputs x periods, BufReader capacities and cuts around the chunk boundaries", big.len()));
    }
    ctx.set_extra("bound_completed", json!({"max_cuts": kmax, "all_cut_sets_up_to_len": full_n}));
    ctx.set_extra("inputs", json!(ins.len()));
    ctx.scope_done("fragmentations", runs.load(Ordering::Relaxed), t0, &format!("{} inputs", ins.len()));
    ctx.finish()
}

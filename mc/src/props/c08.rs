//! C08 — LZMA size and end-of-stream rules for every option combination (E5 full grid).
use crate::cases::{run_case, Case, Fmt, Hex, Obs, Opts, Rd, SOp, SizeOpt, Sk};
use crate::common::{brief_bytes, Ctx, Tier};
use crate::explore::par_for;
use crate::refmodel::dec;
use crate::refmodel::enc::{self, prog_str, Sym};
use serde_json::json;
use std::sync::atomic::Ordering;
use std::time::Instant;

pub const K1_SIG: &str = "C08-K1-no-size-no-marker-eof-with-code-zero-accepted";

fn programs(seed: u64) -> Vec<Vec<Sym>> {
    let a = 0x61u8.wrapping_add((seed % 9) as u8);
    vec![
        (0..5).map(|i| Sym::L(a + i)).collect(),
        vec![Sym::L(a), Sym::L(a + 1), Sym::M(2, 6)],
        vec![Sym::L(a), Sym::M(1, 9), Sym::L(a + 1)],
        vec![Sym::L(a), Sym::L(a + 1), Sym::L(a + 2), Sym::M(3, 3), Sym::S, Sym::R(0, 4)],
        vec![Sym::L(0); 300],
        {
            let mut p = vec![Sym::L(0); 200];
            p.push(Sym::M(1, 50));
            p
        },
        vec![],
        vec![Sym::L(a)],
        vec![Sym::L(a), Sym::L(a + 1), Sym::L(a + 2), Sym::M(3, 273)],
        (0..20u8).map(|i| Sym::L(i.wrapping_mul(37).wrapping_add(a))).collect(),
        vec![Sym::L(a), Sym::S, Sym::S, Sym::S],
        vec![Sym::L(a), Sym::L(a + 1), Sym::M(2, 2), Sym::R(0, 2), Sym::R(0, 2)],
    ]
}

#[derive(Clone, Copy, Debug, PartialEq, Eq)]
enum Runner {
    OneShot,
    OneShotBytewise,
    OneShotBuf3,
    StreamWhole,
    StreamBytewise,
}

pub fn run(tier: Tier) -> i32 {
    let ctx = Ctx::new("C08", "exploration", tier);
    ctx.set_rule("E5 full grid: 12 small symbol programs (literal-ended, match-ended so that size-1 falls inside a copy, trained so that an extra symbol costs no input, empty) x end marker {absent, present} x header size field {all-ones, n, n-1, n+1, 0, 2^63, 2^64-2} x option {ReadFromHeader, ReadHeaderButUseProvided(None|Some s), UseProvided(None|Some s)} with s in {n, n-1, n+1, 0} x trailing bytes {none, 3} x {one-shot from a slice / bytewise source / 3-byte BufReader, Stream fed whole, Stream fed bytewise}. Oracle: size S in effect => (Ok => exactly S bytes, equal to the program's output prefix); S on a symbol boundary => Ok; S strictly inside a copy => Err; marker before S => Err. No size in effect => with marker and no trailing bytes Ok with the full output; trailing bytes => Err; no marker => Err. distinct_nontrivial = cells in which the size in effect disagrees with the data, or a marker is combined with a size, or no size and no marker.");
    ctx.assume("known finding K1 (marker-less acceptance at EOF with code == 0) is matched by its call-site signature only");
    let mut progs = programs(ctx.seed);
    {
        let al = super::c01::automaton_alphabet(ctx.seed);
        let adepth = tier.pick(2usize, 3usize);
        for i in 0..crate::explore::count_upto(al.len(), adepth) {
            let mut p: Vec<Sym> = vec![Sym::L(0x31), Sym::L(0x32), Sym::L(0x33), Sym::L(0x34)];
            p.extend(crate::explore::nth_seq(al.len(), adepth, i).iter().map(|&k| al[k]));
            progs.push(p);
        }
    }
    // one program longer than 4 KiB whose last copies reach back further than 4096 (and further than any small number a
    // header field may hold) but stay inside the 64 KiB dictionary of the header
    {
        let mut p: Vec<Sym> = (0..300u32).map(|i| Sym::L((i * 37 + i / 5 + 1) as u8)).collect();
        let mut produced = 300u32;
        let mut k = 0u32;
        while produced < 5000 {
            let l = 20 + (k * 13) % 200;
            p.push(Sym::M(1 + (k * 29) % 280, l));
            produced += l;
            k += 1;
        }
        p.extend([Sym::M(4500, 10), Sym::L(0x42), Sym::M(produced - 3, 4), Sym::L(0x43)]);
        progs.push(p);
    }
    let all1 = u64::MAX;
    let mut cells: Vec<(usize, bool, Option<u64>, SizeOpt, bool, Runner)> = Vec::new();
    for pi in 0..progs.len() {
        let n = enc::encode(3, 0, 2, u64::MAX, &progs[pi]).expect.len() as u64;
        let svals = |n: u64| -> Vec<u64> {
            let mut v = vec![n, n.saturating_sub(1), n + 1, 0, 1 << 63, u64::MAX - 1, u64::MAX];
            v.sort_unstable();
            v.dedup();
            v
        };
        for marker in [false, true] {
            for trailing in [false, true] {
                for runner in [Runner::OneShot, Runner::OneShotBytewise, Runner::OneShotBuf3, Runner::StreamWhole, Runner::StreamBytewise] {
                    let mut hv = vec![all1, n, n.saturating_sub(1), n + 1, 0, 1 << 63, u64::MAX - 1];
                    hv.dedup();
                    for h in &hv {
                        cells.push((pi, marker, Some(*h), SizeOpt::Header, trailing, runner));
                    }
                    for h in [all1, n, n + 1, 0, 7] {
                        // (0 and 7: a field that is to be ignored may hold anything)
                        cells.push((pi, marker, Some(h), SizeOpt::HeaderProvided(None), trailing, runner));
                        for s in svals(n) {
                            cells.push((pi, marker, Some(h), SizeOpt::HeaderProvided(Some(s)), trailing, runner));
                        }
                    }
                    cells.push((pi, marker, None, SizeOpt::Provided(None), trailing, runner));
                    for s in svals(n) {
                        cells.push((pi, marker, None, SizeOpt::Provided(Some(s)), trailing, runner));
                    }
                }
            }
        }
    }
    let t0 = Instant::now();
    let settings: Vec<(u32, u32, u32)> = tier.pick(vec![(3u32, 0u32, 2u32), (0, 0, 0), (2, 1, 3), (0, 4, 4), (8, 0, 0)], vec![(3, 0, 2), (0, 0, 0), (2, 1, 3), (0, 4, 4), (8, 0, 0), (4, 4, 0), (1, 0, 1), (0, 0, 4), (0, 4, 0), (4, 0, 4), (1, 2, 3), (2, 2, 1)]);
    par_for((cells.len() * settings.len()) as u64, |ix| {
        let (pi, marker, hfield, sopt, trailing, runner) = cells[ix as usize % cells.len()];
        let (lc, lp, pb) = settings[ix as usize / cells.len()];
        let mut p = progs[pi].clone();
        if marker {
            p.push(Sym::E);
        }
        let e = enc::encode(lc, lp, pb, u64::MAX, &p);
        let t = &e.expect;
        let n = t.len() as u64;
        let boundaries: std::collections::BTreeSet<u64> = std::iter::once(0u64).chain(e.table.iter().map(|(_, p)| *p as u64)).collect();
        let mut bytes = enc::lzma_header(lc, lp, pb, 1 << 16, hfield);
        let hl = if matches!(sopt, SizeOpt::Provided(_)) { 5 } else { 13 };
        bytes.truncate(hl);
        bytes.extend_from_slice(&e.payload);
        let trail: &[u8] = if trailing { &[0x00, 0xAA, 0xFF] } else { &[] };
        bytes.extend_from_slice(trail);
        let opts = Opts { size: sopt, memlimit: None, allow_incomplete: false };
        let s_eff: Option<u64> = match sopt {
            SizeOpt::Header => {
                if hfield == Some(all1) {
                    None
                } else {
                    hfield
                }
            }
            SizeOpt::HeaderProvided(x) | SizeOpt::Provided(x) => x,
        };
        let case = match runner {
            Runner::OneShot => Case::Dec { fmt: Fmt::Lzma, opts, input: Hex(bytes.clone()), rd: Rd::default(), sk: Sk::default() },
            Runner::OneShotBytewise => Case::Dec { fmt: Fmt::Lzma, opts, input: Hex(bytes.clone()), rd: Rd { period: 1, ..Rd::default() }, sk: Sk::default() },
            Runner::OneShotBuf3 => Case::Dec { fmt: Fmt::Lzma, opts, input: Hex(bytes.clone()), rd: Rd { bufreader: 3, period: 7, ..Rd::default() }, sk: Sk::default() },
            Runner::StreamWhole => Case::Stream { opts, sk: Sk::default(), ops: vec![SOp::WriteAll(Hex(bytes.clone())), SOp::Finish] },
            Runner::StreamBytewise => {
                let mut ops: Vec<SOp> = bytes.iter().map(|b| SOp::Write(Hex(vec![*b]))).collect();
                ops.push(SOp::Finish);
                Case::Stream { opts, sk: Sk::default(), ops }
            }
        };
        let o: Obs = run_case(&case);
        ctx.eval(1);
        let nontrivial = match s_eff {
            Some(s) => s != n || marker,
            None => !marker || trailing,
        };
        if nontrivial {
            ctx.nontriv(1);
        }
        // the streaming runners: a bytewise feed stops being consumed once the stream is complete or failed; the
        // verdict is the last op's (finish), or the failing write's
        let (ok, out) = (o.v.is_ok(), &o.out.0);
        if o.v.is_panic() {
            ctx.violation(&case, "no panic", &o, None);
            return;
        }
        let desc = format!(
            "program [{}] (n={}) lc={} lp={} pb={} marker={} header-size-field={:?} option={:?} trailing={} via {:?}",
            prog_str(&progs[pi]), n, lc, lp, pb, marker, hfield.map(|h| if h == all1 { "all-ones".to_string() } else { h.to_string() }), sopt, trailing, runner
        );
        match s_eff {
            Some(s) => {
                if ok {
                    let m = s.min(n) as usize;
                    if out.len() as u64 != s || out[..m.min(out.len())] != t[..m.min(out.len())] {
                        ctx.violation(&case, &format!("{}: size {} in effect, so success implies exactly {} bytes equal to the program's output", desc, s, s), &o, None);
                        return;
                    }
                    if s > n && marker {
                        ctx.violation(&case, &format!("{}: the end marker is met after {} bytes, before the size {} in effect => Err", desc, n, s), &o, None);
                        return;
                    }
                    if s < n && !boundaries.contains(&s) {
                        ctx.violation(&case, &format!("{}: size {} falls strictly inside a copy => Err", desc, s), &o, None);
                        return;
                    }
                } else if s <= n && boundaries.contains(&s) {
                    ctx.violation(&case, &format!("{}: size {} in effect lies on a symbol boundary of the data => Ok with {}", desc, s, brief_bytes(&t[..s as usize])), &o, None);
                }
            }
            None => {
                if marker && !trailing {
                    if !(ok && out == t) {
                        ctx.violation(&case, &format!("{}: no size in effect, marker present, nothing after it => Ok with {}", desc, brief_bytes(t)), &o, None);
                    }
                } else if ok {
                    if marker {
                        ctx.violation(&case, &format!("{}: no size in effect: bytes after the end marker => Err", desc), &o, None);
                    } else {
                        // no marker: must be Err. Known finding K1 if the signature matches exactly.
                        let payload = &bytes[hl..];
                        let mut st = dec::LzState::new(lc, lp, pb);
                        let mut win = Vec::new();
                        let d = dec::decode_segment(&mut st, &mut win, u64::MAX, payload, None, true, Some(100_000));
                        let k1 = d.syms.iter().any(|sr| sr.consumed == payload.len() && sr.code_zero && sr.produced == out.len() && sr.kind != dec::Kind::Eos) && win.starts_with(out)
                            || (out.is_empty() && payload.len() == 5 && payload[1..] == [0, 0, 0, 0]);
                        ctx.violation(&case, &format!("{}: no size in effect and no end marker => Err", desc), &o, if k1 { Some(K1_SIG) } else { None });
                    }
                }
            }
        }
        if ix % 1009 == 0 {
            ctx.sample(json!({"cell": desc, "size_in_effect": s_eff, "verdict": o.v.class(), "out_len": out.len()}));
        }
        ctx.traces.fetch_add(1, Ordering::Relaxed);
    });
    ctx.scope_done("grid", (cells.len() * settings.len()) as u64, t0, &format!("{} cells x {} lc/lp/pb", cells.len(), settings.len()));
    // the end marker is only an end of stream if the range coder is finished there (code == 0, what every conforming
    // encoder's flush guarantees and liblzma requires): the same streams with the last payload byte altered
    {
        let t1 = Instant::now();
        let mut n = 0u64;
        for (pi, p) in progs.iter().enumerate() {
            for (lc, lp, pb) in settings.iter().copied() {
                let mut q = p.clone();
                q.push(Sym::E);
                let e = enc::encode(lc, lp, pb, u64::MAX, &q);
                for x in [0x01u8, 0x10, 0x80] {
                    let mut pay = e.payload.clone();
                    let l = pay.len();
                    pay[l - 1] ^= x;
                    // only submit if the reference decoder still reaches the marker with all input consumed and code != 0
                    let mut st = dec::LzState::new(lc, lp, pb);
                    let mut win = Vec::new();
                    let d = dec::decode_segment(&mut st, &mut win, u64::MAX, &pay, None, true, None);
                    if !(d.stop == dec::Stop::Marker && d.consumed == pay.len() && !d.code_zero) {
                        continue;
                    }
                    for (sopt, hl) in [(SizeOpt::Header, 13usize), (SizeOpt::HeaderProvided(None), 13), (SizeOpt::Provided(None), 5)] {
                        let mut bytes = enc::lzma_header(lc, lp, pb, 1 << 16, None);
                        bytes.truncate(hl);
                        bytes.extend_from_slice(&pay);
                        let opts = Opts { size: sopt, memlimit: None, allow_incomplete: false };
                        for case in [
                            Case::Dec { fmt: Fmt::Lzma, opts, input: Hex(bytes.clone()), rd: Rd::default(), sk: Sk::default() },
                            Case::Stream { opts, sk: Sk::default(), ops: vec![SOp::WriteAll(Hex(bytes.clone())), SOp::Finish] },
                        ] {
                            let o = run_case(&case);
                            n += 1;
                            ctx.eval(1);
                            ctx.nontriv(1);
                            if !o.v.is_err() {
                                ctx.violation(&case, &format!("program #{} [{}] + marker with the last payload byte ^= {:#04x} (marker reached with code != 0), option {:?}: not a clean end of stream => Err", pi, prog_str(p), x, sopt), &o, None);
                            }
                        }
                    }
                }
            }
        }
        ctx.scope_done("marker-with-unfinished-coder", n, t1, "");
    }
    // ---------------------------------------------------------------- the end marker is the reserved distance, whatever length code
    // accompanies it (encoders write the minimal one; the format - and liblzma - accept any): no size in effect => Ok with
    // the full output; a size in effect equal to the data => Ok; trailing bytes after it => Err
    {
        let t3 = Instant::now();
        let lens: Vec<u32> = tier.pick(vec![2u32, 3, 9, 10, 17, 18, 100, 273], (2..=273u32).collect());
        let mut n = 0u64;
        for (lc, lp, pb) in [(3u32, 0u32, 2u32), (0, 0, 0)] {
            for (pi, prog) in progs.iter().enumerate().take(12) {
                for &l in &lens {
                    let mut p = prog.clone();
                    p.push(Sym::EL(l));
                    let e = enc::encode(lc, lp, pb, u64::MAX, &p);
                    let nlen = e.expect.len() as u64;
                    for (what, hfield, trailing, want_ok) in [("no size", None, false, true), ("size = data", Some(nlen), false, true), ("no size + 1 trailing byte", None, true, false)] {
                        let mut bytes = enc::lzma_file(lc, lp, pb, 1 << 16, hfield, &e.payload);
                        if trailing {
                            bytes.push(0);
                        }
                        for stream in [false, true] {
                            let case = if stream {
                                let mut ops: Vec<SOp> = bytes.chunks(5).map(|c| SOp::WriteAll(Hex(c.to_vec()))).collect();
                                ops.push(SOp::Finish);
                                Case::Stream { opts: Opts::default(), sk: Sk::default(), ops }
                            } else {
                                Case::Dec { fmt: Fmt::Lzma, opts: Opts::default(), input: Hex(bytes.clone()), rd: Rd::default(), sk: Sk::default() }
                            };
                            let o = run_case(&case);
                            n += 1;
                            ctx.eval(1);
                            ctx.nontriv(1);
                            let all_ok = if o.ops.is_empty() { o.v.is_ok() } else { o.ops.iter().all(|r| r.v.is_ok()) };
                            let any_err = if o.ops.is_empty() { o.v.is_err() } else { o.ops.iter().any(|r| r.v.is_err()) && !o.ops.iter().any(|r| r.v.is_panic()) };
                            let ok = if want_ok { all_ok && o.out.0 == e.expect } else { any_err };
                            if !ok {
                                ctx.violation(&case, &format!("program #{} + end marker with match length {} ({}) lc={} lp={} pb={} via {}: {}", pi, l, what, lc, lp, pb, if stream { "Stream" } else { "one-shot" }, if want_ok { format!("Ok with the {} bytes of the program", nlen) } else { "Err".into() }), &o, None);
                            }
                        }
                    }
                }
            }
        }
        ctx.scope_done("end-marker-with-any-length-code", n, t3, "");
    }
    // ---------------------------------------------------------------- the size rules do not interact with a memory limit that the window
    // satisfies: 5000 bytes through a 4096-byte dictionary with limits between the dictionary size and the output size
    {
        let t4 = Instant::now();
        let mut prog: Vec<Sym> = (0..200u32).map(|i| Sym::L((i * 7 + 3) as u8)).collect();
        let mut produced = 200usize;
        let mut k = 0u32;
        while produced < 5000 {
            let l = (5000 - produced).min(200 + (k as usize * 13) % 70);
            if l >= 2 {
                prog.push(Sym::M(1 + (k * 19) % 190, l as u32));
                produced += l;
            } else {
                prog.push(Sym::L(k as u8));
                produced += 1;
            }
            k += 1;
        }
        let e = enc::encode(3, 0, 2, 4096, &prog);
        let mut pm = prog.clone();
        pm.push(Sym::E);
        let em = enc::encode(3, 0, 2, 4096, &pm);
        let mut n = 0u64;
        for m in [4096u64, 4097, 4500, 4999, 5000, 5001, 1 << 20] {
            for (what, size, bytes, want_ok) in [
                ("size 5000 in the header", SizeOpt::Header, enc::lzma_file(3, 0, 2, 4096, Some(5000), &e.payload), true),
                ("size 4999 in the header (ends inside the last copy)", SizeOpt::Header, enc::lzma_file(3, 0, 2, 4096, Some(4999), &e.payload), false),
                ("ReadHeaderButUseProvided(Some(5000)), header says 7", SizeOpt::HeaderProvided(Some(5000)), enc::lzma_file(3, 0, 2, 4096, Some(7), &e.payload), true),
                ("no size, end marker", SizeOpt::Header, enc::lzma_file(3, 0, 2, 4096, None, &em.payload), true),
                ("UseProvided(Some(5000)), 5-byte header", SizeOpt::Provided(Some(5000)), { let mut f = enc::lzma_header(3, 0, 2, 4096, None); f.truncate(5); f.extend_from_slice(&e.payload); f }, true),
            ] {
                for stream in [false, true] {
                    let opts = Opts { size, memlimit: Some(m), allow_incomplete: false };
                    let case = if stream {
                        let mut ops: Vec<SOp> = bytes.chunks(37).map(|c| SOp::WriteAll(Hex(c.to_vec()))).collect();
                        ops.push(SOp::Finish);
                        Case::Stream { opts, sk: Sk::default(), ops }
                    } else {
                        Case::Dec { fmt: Fmt::Lzma, opts, input: Hex(bytes.clone()), rd: Rd::default(), sk: Sk::default() }
                    };
                    let o = run_case(&case);
                    n += 1;
                    ctx.eval(1);
                    ctx.nontriv(1);
                    let all_ok = if o.ops.is_empty() { o.v.is_ok() } else { o.ops.iter().all(|r| r.v.is_ok()) };
                    let any_err = if o.ops.is_empty() { o.v.is_err() } else { o.ops.iter().any(|r| r.v.is_err()) && !o.ops.iter().any(|r| r.v.is_panic()) };
                    let ok = if want_ok { all_ok && o.out.0 == e.expect } else { any_err };
                    if !ok {
                        ctx.violation(&case, &format!("5000 bytes through a 4096-byte dictionary, memory limit {} (the window never needs more than 4096), {} via {}: {}", m, what, if stream { "Stream" } else { "one-shot" }, if want_ok { "Ok with exactly the 5000 bytes" } else { "Err" }), &o, None);
                    }
                }
            }
        }
        ctx.scope_done("size-rules-under-a-satisfied-memory-limit", n, t4, "");
    }
    // ---------------------------------------------------------------- the marker of an earlier call does not excuse a later one
    // (raw decoder without a size: marker-terminated stream, then - with and without reset - an input that ends
    // without a marker at a point where the range coder is "finished": the five coder start bytes 00 00 00 00 00)
    {
        use crate::cases::RawOp;
        let t2 = Instant::now();
        let mut n = 0u64;
        for (lc, lp, pb) in [(3u32, 0u32, 2u32), (0, 0, 0)] {
            for (pi, prog) in progs.iter().enumerate().take(12) {
                let mut p = prog.clone();
                p.push(Sym::E);
                let e = enc::encode(lc, lp, pb, u64::MAX, &p);
                // the first call ends with the marker but fails afterwards (the sink refuses the final flush, or its first
                // write): whatever the decoder remembers about that marker must not excuse the next input either
                for k in [1_000_000usize, 0] {
                    let ops = vec![RawOp::DecFail(Hex(e.payload.clone()), k), RawOp::Dec(Hex(vec![0u8; 5]))];
                    let case = Case::RawLzma { lc, lp, pb, dict: 1 << 16, size: None, memlimit: None, ops };
                    let o = run_case(&case);
                    n += 1;
                    ctx.eval(1);
                    ctx.nontriv(1);
                    let no_panic = o.ops.iter().all(|r| !r.v.is_panic());
                    let last_err = o.ops.last().map_or(false, |r| r.v.is_err());
                    if !(no_panic && last_err) {
                        ctx.violation(&case, &format!("raw decoder without a size: program #{} + marker into a sink whose {} fails; then an input of just the five coder start bytes (no marker) => Err", pi, if k == 0 { "first write" } else { "flush" }), &o, None);
                    }
                }
                for with_reset in [false, true] {
                    let mut ops = vec![RawOp::Dec(Hex(e.payload.clone()))];
                    if with_reset {
                        ops.push(RawOp::Reset);
                    }
                    ops.push(RawOp::Dec(Hex(vec![0u8; 5])));
                    let case = Case::RawLzma { lc, lp, pb, dict: 1 << 16, size: None, memlimit: None, ops };
                    let o = run_case(&case);
                    n += 1;
                    ctx.eval(1);
                    ctx.nontriv(1);
                    let first_ok = o.ops.first().map_or(false, |r| r.v.is_ok());
                    let last_err = o.ops.last().map_or(false, |r| r.v.is_err());
                    if !(first_ok && last_err) {
                        ctx.violation(&case, &format!("raw decoder without a size: program #{} + marker decodes Ok; then{} an input of just the five coder start bytes (no marker) => Err", pi, if with_reset { " reset(None) and" } else { "" }), &o, None);
                    }
                }
            }
        }
        // the size rules follow the size in effect after reset(Some(..)): a decoder constructed with a size, then
        // reset(Some(None)) = "no size any more": a marker-terminated stream of another length decodes completely, and
        // the same stream without its marker is an error; then reset(Some(Some(k))) with k inside the data
        for (lc, lp, pb) in [(3u32, 0u32, 2u32), (0, 0, 0)] {
            for (pi, prog) in progs.iter().enumerate().take(12) {
                let e_plain = enc::encode(lc, lp, pb, u64::MAX, prog);
                let mut p = prog.clone();
                p.push(Sym::E);
                let e_marker = enc::encode(lc, lp, pb, u64::MAX, &p);
                let nlen = e_plain.expect.len() as u64;
                let ops = vec![
                    RawOp::Dec(Hex(enc::encode(lc, lp, pb, u64::MAX, &[Sym::L(0x41), Sym::L(0x42), Sym::L(0x43)]).payload)),
                    RawOp::ResetSize(None),
                    RawOp::Dec(Hex(e_marker.payload.clone())),
                    RawOp::ResetSize(None),
                    RawOp::Dec(Hex(e_plain.payload.clone())),
                    RawOp::ResetSize(Some(nlen + 1)),
                    RawOp::Dec(Hex(e_plain.payload.clone())),
                ];
                let case = Case::RawLzma { lc, lp, pb, dict: 1 << 16, size: Some(3), memlimit: None, ops };
                let o = run_case(&case);
                n += 1;
                ctx.eval(1);
                ctx.nontriv(1);
                let ok = o.ops.len() == 7
                    && o.ops[0].v.is_ok()
                    && o.ops[2].v.is_ok()
                    && o.ops[2].sink_len == e_marker.expect.len()
                    && o.ops[2].n == Some(e_marker.payload.len() as u64)
                    && o.ops[4].v.is_err()
                    // (a trained stream may yield one more symbol from its flush bytes: success then means exactly n+1 bytes)
                    && (o.ops[6].v.is_err() || o.ops[6].sink_len as u64 == nlen + 1);
                if !ok {
                    ctx.violation(&case, &format!("raw decoder constructed with size 3: [L41 L42 L43] Ok; reset(Some(None)); program #{} + marker => Ok with all {} bytes; reset(Some(None)); the same without marker => Err; reset(Some(Some({}))); the same ({} bytes of data) => Err (or exactly that many bytes)", pi, e_marker.expect.len(), nlen + 1, nlen), &o, None);
                }
            }
        }
        ctx.scope_done("raw-decoder-second-call-without-marker", n, t2, "");
    }
    ctx.finish()
}

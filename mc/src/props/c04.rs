//! C04 — compression round-trips and is format-conformant for every input (E5 inputs x E3 source fragmentation).
use crate::cases::{dec_plain, run_case, Case, EncSize, Fmt, Hex, Opts, Rd, SizeOpt, Sk};
use crate::common::{brief_bytes, Ctx, Tier};
use crate::explore::{count_upto, cut_set_from_mask, cut_sets, nth_seq, par_for};
use crate::refmodel::enc::{self, Sym};
use crate::refmodel::xz::{self, Block, Vx, XzFile};
use crate::refmodel::{dec, lzma2};
use serde_json::json;
use std::sync::atomic::Ordering;
use std::time::Instant;

fn liblzma(data: &[u8]) -> Result<Vec<u8>, String> {
    lzma::decompress(data).map_err(|e| format!("{:?}", e))
}

/// Check one compressed artefact against the three decoders. Returns false (after reporting) on a mismatch.
fn conformant(ctx: &Ctx, case: &Case, fmt: Fmt, size: EncSize, input: &[u8], compressed: &[u8], use_liblzma: bool) -> bool {
    let fail = |what: String| {
        let o = run_case(case);
        ctx.violation(case, &what, &o, None);
        false
    };
    ctx.traces.fetch_add(1, Ordering::Relaxed);
    match fmt {
        Fmt::Lzma => {
            let dopts = match size {
                EncSize::Skip => Opts { size: SizeOpt::Provided(Some(input.len() as u64)), ..Opts::default() },
                _ => Opts::default(),
            };
            let (v, out, consumed) = dec_plain(Fmt::Lzma, &dopts, compressed);
            if !(v.is_ok() && out == input && consumed == compressed.len()) {
                return fail(format!("lzma_compress({:?}) output decodes back with lzma-rs to the {} input bytes (got {:?}, {} bytes, {} of {} consumed)", size, input.len(), v, out.len(), consumed, compressed.len()));
            }
            // strict reference decoder
            let hl = if size == EncSize::Skip { 5 } else { 13 };
            if compressed.len() < hl + 5 {
                return fail("output shorter than header + 5 coder bytes".into());
            }
            let p = compressed[0] as u32;
            if p >= 225 {
                return fail("invalid props byte in header".into());
            }
            let (lc, lp, pb) = (p % 9, (p / 9) % 5, p / 45);
            let dict = u32::from_le_bytes([compressed[1], compressed[2], compressed[3], compressed[4]]) as u64;
            let hsize = if hl == 13 { Some(u64::from_le_bytes(compressed[5..13].try_into().unwrap())) } else { None };
            let s_eff = match size {
                EncSize::HeaderNone => {
                    if hsize != Some(u64::MAX) {
                        return fail("WriteToHeader(None) must write the all-ones size".into());
                    }
                    None
                }
                EncSize::HeaderSome(n) => {
                    if hsize != Some(n) {
                        return fail(format!("WriteToHeader(Some({})) must write that size", n));
                    }
                    Some(n)
                }
                EncSize::Skip => Some(input.len() as u64),
            };
            let (sv, _) = dec::strict_lzma(lc, lp, pb, dict.max(4096), s_eff, &compressed[hl..], true);
            if sv != dec::Verdict::Ok(input.to_vec()) {
                return fail(format!("strict reference decoder (first byte 0, code == 0 at the end, marker iff size unknown, no input left) accepts the output: {:?}", match sv { dec::Verdict::Invalid(s) => s, _ => "wrong bytes".into() }));
            }
            if use_liblzma {
                let file = if hl == 5 {
                    let mut f = compressed[..5].to_vec();
                    f.extend_from_slice(&(input.len() as u64).to_le_bytes());
                    f.extend_from_slice(&compressed[5..]);
                    f
                } else {
                    compressed.to_vec()
                };
                match liblzma(&file) {
                    Ok(o) if o == input => {}
                    other => return fail(format!("liblzma decodes the output back to the input: {:?}", other.map(|o| o.len()))),
                }
            }
        }
        Fmt::Lzma2 => {
            let (v, out, consumed) = dec_plain(Fmt::Lzma2, &Opts::default(), compressed);
            if !(v.is_ok() && out == input && consumed == compressed.len()) {
                return fail(format!("lzma2_compress output decodes back with lzma-rs (got {:?}, {} bytes)", v, out.len()));
            }
            match lzma2::strict_decode(compressed) {
                lzma2::V2::Ok(o, n) if o == input && n == compressed.len() => {}
                other => return fail(format!("strict reference LZMA2 decoder accepts the output: {:?}", match other { lzma2::V2::Invalid(s) => s, _ => "wrong bytes / trailing data".into() })),
            }
            if use_liblzma {
                let f = XzFile { check_id: 1, blocks: vec![Block { payload: compressed.to_vec(), plain: input.to_vec(), ..Default::default() }], ..Default::default() };
                match liblzma(&xz::build(&f).0) {
                    Ok(o) if o == input => {}
                    other => return fail(format!("liblzma decodes the LZMA2 output (wrapped by the reference XZ writer): {:?}", other.map(|o| o.len()))),
                }
            }
        }
        Fmt::Xz => {
            let (v, out, consumed) = dec_plain(Fmt::Xz, &Opts::default(), compressed);
            if !(v.is_ok() && out == input && consumed == compressed.len()) {
                return fail(format!("xz_compress output decodes back with lzma-rs (got {:?}, {} bytes)", v, out.len()));
            }
            match xz::strict_parse(compressed) {
                Vx::Ok(o) if o == input => {}
                other => return fail(format!("strict reference XZ parser accepts the output: {:?}", match other { Vx::Invalid(s) | Vx::Unsupported(s) => s, _ => "wrong bytes".into() })),
            }
            if use_liblzma {
                match liblzma(compressed) {
                    Ok(o) if o == input => {}
                    other => return fail(format!("liblzma decodes the xz_compress output: {:?}", other.map(|o| o.len()))),
                }
            }
        }
    }
    true
}

/// Model-guided search (beam search on the reference literal-only encoder, which runs the same range-coder
/// algorithm) for inputs on which a carry is propagated through a run of >= 2, 3, 4, ... pending 0xFF bytes -
/// the case the statement names and that neither short strings nor random inputs reach.
/// Deterministic; returns (witness input, run length).
pub fn carry_witnesses(prefix: &[u8], depth: usize, beam: usize) -> Vec<(Vec<u8>, u64)> {
    use rayon::prelude::*;
    #[derive(Clone)]
    struct St {
        m: enc::Model,
        rc: enc::RcEnc,
        bytes: Vec<u8>,
    }
    let mut best: std::collections::BTreeMap<u64, Vec<u8>> = std::collections::BTreeMap::new();
    let mut first = St { m: enc::Model::new(3, 0, 2), rc: enc::RcEnc::new(), bytes: vec![] };
    for b in prefix {
        first.m.enc(&mut first.rc, Sym::L(*b));
        first.bytes.push(*b);
    }
    first.rc.max_ff_run_at_carry = 0;
    let mut frontier = vec![first];
    for _ in 0..depth {
        let mut next: Vec<(u128, St)> = frontier
            .par_iter()
            .flat_map_iter(|st| {
                (0..=255u8).map(move |b| {
                    let mut n = st.clone();
                    n.m.enc(&mut n.rc, Sym::L(b));
                    n.bytes.push(b);
                    // pending run first, then how close `low` is to carrying
                    // the interval [low, low+range) still straddles the carry boundary 2^32: the run can keep
                    // growing and a carry is still possible
                    let lo32 = n.rc.low & 0xFFFF_FFFF;
                    let straddles = (lo32 + n.rc.range as u64 > 0x1_0000_0000) as u128;
                    let score = (straddles << 100) | ((n.rc.cache_size as u128) << 41) | lo32 as u128;
                    (score, n)
                })
            })
            .collect();
        for (_, st) in &next {
            let r = st.rc.max_ff_run_at_carry;
            if r >= 2 {
                let e = best.entry(r).or_insert_with(|| st.bytes.clone());
                if st.bytes.len() < e.len() {
                    *e = st.bytes.clone();
                }
            }
        }
        next.sort_by(|a, b| b.0.cmp(&a.0).then_with(|| a.1.bytes.cmp(&b.1.bytes)));
        next.truncate(beam);
        // a state that already carried keeps its record but is no longer interesting to extend preferentially:
        frontier = next.into_iter().map(|(_, s)| s).collect();
        if std::env::var("VERIF_DEBUG").is_ok() {
            eprintln!("depth {}: best pending {} straddle {} carried-max {}", frontier[0].bytes.len(), frontier[0].rc.cache_size, (frontier[0].rc.low & 0xFFFF_FFFF) + frontier[0].rc.range as u64 > 0x1_0000_0000, best.keys().max().copied().unwrap_or(0));
        }
    }
    best.into_iter().map(|(r, b)| (b, r)).collect()
}

/// Second model-guided search: inputs on which a carry arrives while the new top byte of `low` is itself 0xFF
/// (low >= 0x1_FF00_0000 when a byte is shifted out) - a separate branch of the carry logic. Exhaustive over the family
/// 0^n a 0^i b 0^j c  (a in `firsts`, b and c in 1..=255, i, j <= max_gap), pruned by a necessary condition of the
/// reference encoder's state before `c` (low 24 bits of `low` >= 0xFE0000 and `range` < 2^25):
/// the zero runs drive the literal probabilities to the rail so that `range` is just under 2^24 at each shift, `a` and
/// `b` place the low 24 bits of `low`, `c` supplies the improbable 1-bits right after the shift.
/// Deterministic; returns up to `want` witnesses.
pub fn carry_on_ff_top_witnesses(n_zero: usize, firsts: &[u8], max_gap: usize, want: usize) -> Vec<Vec<u8>> {
    use rayon::prelude::*;
    let mut m0 = enc::Model::new(3, 0, 2);
    let mut rc0 = enc::RcEnc::new();
    for _ in 0..n_zero {
        m0.enc(&mut rc0, Sym::L(0));
    }
    rc0.carry_on_ff_top = 0;
    let mut found: Vec<(usize, usize, u8, u8, u8, Option<u8>)> = firsts
        .par_iter()
        .flat_map_iter(|&a| {
            let mut m = m0.clone();
            let mut rc = rc0.clone();
            m.enc(&mut rc, Sym::L(a));
            let mut hits = Vec::new();
            for i in 0..=max_gap {
                for b in 1..=255u8 {
                    let mut m1 = m.clone();
                    let mut rc1 = rc.clone();
                    m1.enc(&mut rc1, Sym::L(b));
                    for j in 0..=max_gap {
                        if rc1.carry_on_ff_top > 0 {
                            break;
                        }
                        if (rc1.low & 0xFF_FFFF) >= 0xFE_0000 && rc1.range < 0x0200_0000 {
                            for c in 1..=255u8 {
                                let mut m2 = m1.clone();
                                let mut rc2 = rc1.clone();
                                m2.enc(&mut rc2, Sym::L(c));
                                if rc2.carry_on_ff_top == 0 && rc2.low >= 0x1_F000_0000 {
                                    // the carry is there, the top byte is not yet 0xFF: one more literal
                                    for d in 1..=255u8 {
                                        let mut m3 = m2.clone();
                                        let mut rc3 = rc2.clone();
                                        m3.enc(&mut rc3, Sym::L(d));
                                        rc3.flush();
                                        if rc3.carry_on_ff_top > 0 {
                                            hits.push((i + j, i, a, b, c, Some(d)));
                                        }
                                    }
                                }
                                rc2.flush();
                                if rc2.carry_on_ff_top > 0 {
                                    hits.push((i + j, i, a, b, c, None));
                                }
                            }
                        }
                        m1.enc(&mut rc1, Sym::L(0));
                    }
                }
                m.enc(&mut rc, Sym::L(0));
            }
            hits
        })
        .collect();
    found.sort();
    let total = found.len();
    // spread the kept witnesses over the list (shortest first, then evenly spaced)
    let mut keep = Vec::new();
    for k in 0..want.min(total) {
        keep.push(found[k * total / want.min(total)]);
    }
    keep.into_iter()
        .map(|(ij, i, a, b, c, d)| {
            let mut v = vec![0u8; n_zero];
            v.push(a);
            v.extend(std::iter::repeat(0u8).take(i));
            v.push(b);
            v.extend(std::iter::repeat(0u8).take(ij - i));
            v.push(c);
            v.extend(d);
            v
        })
        .collect()
}

/// Third model-guided search: inputs for which the range coder emits a group of bytes (cached byte + pending 0xFF run)
/// that straddles, ends at or starts at the 65536th byte of its output - a coder that hands its output on in blocks
/// has to split that group. Exhaustive over the two literals that follow a fixed pseudo-random prefix which brings the
/// output to ~40 bytes before the boundary; deterministic; returns up to `want` inputs.
pub fn block_boundary_witnesses(boundary: usize, salt: u32, want: usize) -> Vec<Vec<u8>> {
    use rayon::prelude::*;
    let mut m = enc::Model::new(3, 0, 2);
    let mut rc = enc::RcEnc::new();
    let mut bytes: Vec<u8> = Vec::new();
    let mut x = salt.wrapping_mul(2654435761).wrapping_add(97);
    let mut next = move || {
        x ^= x << 13;
        x ^= x >> 17;
        x ^= x << 5;
        (x >> 9) as u8
    };
    while rc.out.len() + 40 < boundary {
        let b = next();
        m.enc(&mut rc, Sym::L(b));
        bytes.push(b);
    }
    let tail: Vec<u8> = (0..120).map(|_| next()).collect();
    rc.multi_emits.clear();
    let hits: Vec<(u8, u8, usize)> = (0..=255u8)
        .into_par_iter()
        .flat_map_iter(|a| {
            let mut m1 = m.clone();
            let mut rc1 = rc.clone();
            m1.enc(&mut rc1, Sym::L(a));
            let tail = &tail;
            (0..=255u8).filter_map(move |b| {
                let mut m2 = m1.clone();
                let mut rc2 = rc1.clone();
                m2.enc(&mut rc2, Sym::L(b));
                for t in tail {
                    m2.enc(&mut rc2, Sym::L(*t));
                }
                // kind 3: the cached byte is the last one before the boundary and its 0xFF run lies beyond it; 0: the group
                // straddles the boundary elsewhere; 1: ends exactly at it; 2: starts exactly at it
                rc2.multi_emits.iter().find_map(|&(s, c)| if s + 1 == boundary && c >= 2 { Some(3) } else if s < boundary && s + c > boundary { Some(0) } else if s + c == boundary { Some(1) } else if s == boundary { Some(2) } else { None }).map(|k| (a, b, k))
            })
        })
        .collect();
    let mut out = Vec::new();
    for kind in 0..4 {
        for (a, b, _) in hits.iter().filter(|h| h.2 == kind).take(want) {
            let mut v = bytes.clone();
            v.push(*a);
            v.push(*b);
            v.extend_from_slice(&tail);
            v.extend((0..300u32).map(|i| (i.wrapping_mul(40503) >> 5) as u8));
            out.push(v);
        }
    }
    out
}

pub fn run(tier: Tier) -> i32 {
    let ctx = Ctx::new("C04", "exploration", tier);
    ctx.set_rule("E5 inputs x E3 source fragmentation: all strings over {00, FF, 'a'} up to length L, all strings over the full byte alphabet up to length 2 (3 in thorough), run-structured inputs x^i y^j z^k on a grid up to 4096, LZMA2 chunk-boundary lengths {0,1,65535,65536,65537,131071,131072,131073}; x {WriteToHeader(None), WriteToHeader(Some(len)), SkipWritingToHeader} with the matching decode option; x source cut sets (all <= 2 cuts, all 2^(n-1) for n <= 12, bytewise). Each output must decode to the input with lzma-rs, with the strict reference decoder (marker iff size unknown, code == 0 at the end, exact chunk/index/footer arithmetic) and with liblzma. Byte identity with the reference encoder is not required. distinct_nontrivial = inputs on which the reference range encoder propagated a carry through >= 1 pending 0xFF byte, or that span more than one LZMA2 chunk.");
    ctx.assume("liblzma is an independent conforming decoder; the strict reference decoders are bound to it by `lzmc bind`");
    let sizes_for = |n: usize| [EncSize::HeaderNone, EncSize::HeaderSome(n as u64), EncSize::Skip];

    let check_input = |input: &[u8], frag_all: bool, lib: bool| {
        // reference literal-only encode to classify the input
        let prog: Vec<Sym> = input.iter().map(|b| Sym::L(*b)).collect();
        let e = enc::encode(3, 0, 2, u64::MAX, &prog);
        ctx.eval(1);
        if e.carries_through_ff > 0 || input.len() > 65536 {
            ctx.nontriv(1);
        }
        let n = input.len();
        let mut rds: Vec<Rd> = vec![Rd::default()];
        if frag_all && n >= 2 {
            if n <= 12 {
                for mask in 1..(1u64 << (n - 1)) {
                    rds.push(Rd { cuts: cut_set_from_mask(n, mask), ..Rd::default() });
                }
            } else {
                for cs in cut_sets(n, 2).into_iter().skip(1) {
                    rds.push(Rd { cuts: cs, ..Rd::default() });
                }
                rds.push(Rd { period: 1, ..Rd::default() });
            }
        } else if n >= 2 {
            rds.push(Rd { period: 1, ..Rd::default() });
            rds.push(Rd { cuts: vec![n / 2], ..Rd::default() });
            rds.push(Rd { period: 65535, ..Rd::default() });
            // a tiny first fragment followed by everything else at once (a staging path followed by a bulk path)
            rds.push(Rd { cuts: vec![1], ..Rd::default() });
            rds.push(Rd { cuts: vec![100.min(n - 1)], ..Rd::default() });
            rds.push(Rd { cuts: vec![n - 1], ..Rd::default() });
        }
        for fmt in [Fmt::Lzma, Fmt::Lzma2, Fmt::Xz] {
            let sizes: Vec<EncSize> = if fmt == Fmt::Lzma { sizes_for(n).to_vec() } else { vec![EncSize::Skip] };
            for size in sizes {
                let mut seen_outputs: Vec<Vec<u8>> = Vec::new();
                for rd in &rds {
                    let case = Case::Enc { fmt, size, input: Hex(input.to_vec()), rd: rd.clone(), sk: Sk::default() };
                    let o = run_case(&case);
                    if !o.v.is_ok() || o.consumed != n {
                        ctx.violation(&case, &format!("compressing {} ({} bytes): Ok and the whole input consumed", brief_bytes(input), n), &o, None);
                        return;
                    }
                    // identical outputs need only be judged once
                    if seen_outputs.iter().any(|s| *s == o.out.0) {
                        continue;
                    }
                    if !conformant(&ctx, &case, fmt, size, input, &o.out.0, lib) {
                        return;
                    }
                    seen_outputs.push(o.out.0);
                }
                // a sink that accepts one or two bytes per write must receive the same bytes as one that accepts everything
                if n <= 4096 {
                    let plain = run_case(&Case::Enc { fmt, size, input: Hex(input.to_vec()), rd: Rd::default(), sk: Sk::default() });
                    for chunk in [1usize, 2] {
                        let case = Case::Enc { fmt, size, input: Hex(input.to_vec()), rd: Rd::default(), sk: Sk { chunk, ..Sk::default() } };
                        let o = run_case(&case);
                        if !(o.v.is_ok() && o.out == plain.out) {
                            ctx.violation(&case, &format!("compressing {} ({} bytes) into a sink that accepts {} byte(s) per write: the same {} bytes as into an unrestricted sink", brief_bytes(input), n, chunk, plain.out.0.len()), &o, None);
                            return;
                        }
                    }
                }
            }
        }
    };

    // ---------------------------------------------------------------- small alphabet, every string
    {
        let l = tier.pick(7usize, 9usize);
        let name = format!("strings-over-00-ff-61/len<={}", l);
        if ctx.may_start(&name) {
            let t0 = Instant::now();
            let al = [0x00u8, 0xFF, 0x61];
            let total = count_upto(3, l);
            par_for(total, |i| {
                let s: Vec<u8> = nth_seq(3, l, i).iter().map(|&k| al[k]).collect();
                check_input(&s, true, i % 5 == 0 || tier == Tier::Thorough);
                if i % 2003 == 0 {
                    ctx.sample(json!({"scope": name, "input": brief_bytes(&s)}));
                }
            });
            ctx.scope_done(&name, total, t0, "3 formats x size options x all cut sets of the source (n <= 12: all 2^(n-1))");
        }
    }
    // ---------------------------------------------------------------- full alphabet, length <= 2 (3)
    {
        let l = tier.pick(2usize, 3usize);
        let name = format!("all-byte-strings/len<={}", l);
        if ctx.may_start(&name) {
            let t0 = Instant::now();
            let total = count_upto(256, l);
            par_for(total, |i| {
                let s: Vec<u8> = nth_seq(256, l, i).iter().map(|&k| k as u8).collect();
                check_input(&s, l <= 2, i % 97 == 0);
            });
            ctx.scope_done(&name, total, t0, "");
        }
    }
    // ---------------------------------------------------------------- run-structured inputs
    {
        let name = "runs-x^i-y^j-z^k";
        if ctx.may_start(name) {
            let t0 = Instant::now();
            let lens: Vec<usize> = tier.pick(vec![0, 1, 2, 31, 256, 1000, 4096], vec![0, 1, 2, 3, 31, 32, 255, 256, 1000, 4095, 4096]);
            let vals: Vec<(u8, u8, u8)> = vec![(0x00, 0xFF, 0x61), (0xFF, 0x00, 0xFF), (0xFF, 0xFE, 0xFF), (0x7F, 0x80, 0x00)];
            let mut items = Vec::new();
            for v in &vals {
                for &i in &lens {
                    for &j in &lens {
                        for &k in &lens {
                            items.push((*v, i, j, k));
                        }
                    }
                }
            }
            par_for(items.len() as u64, |ix| {
                let ((x, y, z), i, j, k) = items[ix as usize];
                let mut s = vec![x; i];
                s.extend(std::iter::repeat(y).take(j));
                s.extend(std::iter::repeat(z).take(k));
                check_input(&s, false, ix % 7 == 0 || tier == Tier::Thorough);
                if ix % 211 == 0 {
                    ctx.sample(json!({"scope": name, "input": format!("{:02x}^{} {:02x}^{} {:02x}^{}", x, i, y, j, z, k)}));
                }
            });
            ctx.scope_done(name, items.len() as u64, t0, "drives probabilities to both rails; long pending-0xFF runs");
        }
    }
    // ---------------------------------------------------------------- carries through long runs of pending 0xFF bytes
    {
        let name = "carry-through-0xFF-run-witnesses";
        if ctx.may_start(name) {
            let t0 = Instant::now();
            // from several trained starting states (a long run of equal bytes drives is_match and the literal
            // probabilities to the rails, which makes the straddling lineage live longer)
            let prefixes: Vec<Vec<u8>> = vec![vec![], vec![0u8; 300], vec![0u8; 700], vec![0xFF; 700], (0..200u32).map(|i| (i * 7) as u8).collect()];
            let mut w: Vec<(Vec<u8>, u64)> = Vec::new();
            for p in &prefixes {
                let mut found = carry_witnesses(p, tier.pick(96, 240), tier.pick(10, 24));
                // keep the three longest runs per starting state
                found.sort_by(|a, b| b.1.cmp(&a.1));
                found.truncate(3);
                w.extend(found);
            }
            w.sort_by(|a, b| a.1.cmp(&b.1));
            let longest = w.iter().map(|x| x.1).max().unwrap_or(0);
            let mut items: Vec<Vec<u8>> = Vec::new();
            for (b, _) in &w {
                items.push(b.clone());
                for tail in [vec![0u8], vec![0xFF], vec![0x61, 0x62, 0x63]] {
                    let mut x = b.clone();
                    x.extend_from_slice(&tail);
                    items.push(x);
                }
            }
            // second objective: a carry that lands on a 0xFF top byte
            let mut on_ff = 0usize;
            for nz in tier.pick(vec![300usize, 448], vec![200usize, 300, 448, 700, 1000]) {
                let firsts: Vec<u8> = tier.pick(vec![0x01u8, 0x02, 0x04, 0x08, 0x10, 0x20, 0x40, 0x80, 0x03, 0x19, 0x55, 0xFF], (1..=255u8).collect());
                for b in carry_on_ff_top_witnesses(nz, &firsts, tier.pick(48, 64), 8) {
                    on_ff += 1;
                    let mut x = b.clone();
                    items.push(b);
                    x.extend_from_slice(&[0x03, 0x04]);
                    items.push(x);
                }
            }
            ctx.set_extra("inputs_with_a_carry_landing_on_a_0xFF_top_byte", json!(on_ff));
            // third objective: a group of output bytes that meets the 64 KiB (and 128 KiB) mark of the coder's output
            let mut at_block = 0usize;
            for (boundary, salt) in tier.pick(vec![(65536usize, 1u32)], vec![(65536usize, 1u32), (65536, 2), (131072, 3), (4096, 4), (8192, 5)]) {
                for b in block_boundary_witnesses(boundary, salt, 2) {
                    at_block += 1;
                    items.push(b);
                }
            }
            ctx.set_extra("inputs_with_an_output_byte_group_at_a_64KiB_mark_of_the_coder_output", json!(at_block));
            par_for(items.len() as u64, |ix| {
                check_input(&items[ix as usize], false, true);
            });
            ctx.set_extra("longest_pending_ff_run_with_carry_reached", json!(longest));
            for (b, r) in w.iter().rev().take(2) {
                ctx.sample(json!({"scope": name, "input": brief_bytes(b), "carry_propagated_through_pending_0xFF_bytes": r}));
            }
            ctx.scope_done(name, items.len() as u64, t0, &format!("model-guided search found inputs with a carry through runs of up to {} pending 0xFF bytes", longest));
        }
    }
    // ---------------------------------------------------------------- pseudo-random content (carry propagation) and chunk-boundary lengths
    {
        let name = "carry-rich-and-64KiB-boundaries";
        if ctx.may_start(name) {
            let t0 = Instant::now();
            let mut items: Vec<Vec<u8>> = Vec::new();
            for seed in 0..tier.pick(300u32, 3000u32) {
                let n = 20 + (seed as usize * 7) % 300;
                let mut x = seed.wrapping_mul(2654435761).wrapping_add(12345);
                let s: Vec<u8> = (0..n)
                    .map(|_| {
                        x ^= x << 13;
                        x ^= x >> 17;
                        x ^= x << 5;
                        (x >> 8) as u8
                    })
                    .collect();
                items.push(s);
            }
            let mut lens: Vec<usize> = vec![0usize, 1, 65535, 65536, 65537, 131071, 131072, 131073];
            // many LZMA2 chunks / positions beyond 2^20 (and 2^24 in the thorough tier)
            lens.extend(tier.pick(vec![1_048_577usize], vec![1_048_575usize, 1_048_577, 4_194_304 + 3, 16_777_216 + 5]));
            for &n in &lens {
                items.push((0..n).map(|i| ((i as u32).wrapping_mul(2654435761) >> 24) as u8).collect());
                items.push(vec![0xFF; n]);
            }
            par_for(items.len() as u64, |ix| {
                check_input(&items[ix as usize], false, true);
            });
            ctx.scope_done(name, items.len() as u64, t0, "");
        }
    }
    // ---------------------------------------------------------------- encoders inside encoders: a source that produces each piece by
    // running another encoder (a sink that packs each piece it is given) on the same thread - what a layered archive writer
    // does. The outer call must return what it returns for a plain source, the inner calls what they return alone.
    {
        let name = "nested-encoders";
        if ctx.may_start(name) {
            use std::io::{self, BufRead, Read, Write};
            let t0 = Instant::now();
            type Enc = fn(&mut dyn BufRead, &mut Vec<u8>) -> io::Result<()>;
            fn e_lzma(r: &mut dyn BufRead, w: &mut Vec<u8>) -> io::Result<()> {
                let mut r = r;
                lzma_rs::lzma_compress(&mut r, w)
            }
            fn e_lzma2(r: &mut dyn BufRead, w: &mut Vec<u8>) -> io::Result<()> {
                let mut r = r;
                lzma_rs::lzma2_compress(&mut r, w)
            }
            fn e_xz(r: &mut dyn BufRead, w: &mut Vec<u8>) -> io::Result<()> {
                let mut r = r;
                lzma_rs::xz_compress(&mut r, w)
            }
            let encs: [(&str, Enc); 3] = [("lzma_compress", e_lzma), ("lzma2_compress", e_lzma2), ("xz_compress", e_xz)];
            struct NestRd<'a> {
                data: &'a [u8],
                pos: usize,
                piece: usize,
                inner: Enc,
                inner_ok: bool,
                want: Vec<u8>,
                nest: bool,
            }
            impl<'a> NestRd<'a> {
                fn poke(&mut self) {
                    if !self.nest {
                        return;
                    }
                    let mut out = Vec::new();
                    let mut src: &[u8] = b"inner data 0123456789";
                    let r = (self.inner)(&mut src, &mut out);
                    if r.is_err() || out != self.want {
                        self.inner_ok = false;
                    }
                }
            }
            impl<'a> Read for NestRd<'a> {
                fn read(&mut self, b: &mut [u8]) -> io::Result<usize> {
                    self.poke();
                    let n = b.len().min(self.piece).min(self.data.len() - self.pos);
                    b[..n].copy_from_slice(&self.data[self.pos..self.pos + n]);
                    self.pos += n;
                    Ok(n)
                }
            }
            impl<'a> BufRead for NestRd<'a> {
                fn fill_buf(&mut self) -> io::Result<&[u8]> {
                    self.poke();
                    let n = self.piece.min(self.data.len() - self.pos);
                    Ok(&self.data[self.pos..self.pos + n])
                }
                fn consume(&mut self, n: usize) {
                    self.pos += n;
                }
            }
            struct NestWr {
                out: Vec<u8>,
                inner: Enc,
                inner_ok: bool,
                want: Vec<u8>,
            }
            impl Write for NestWr {
                fn write(&mut self, b: &[u8]) -> io::Result<usize> {
                    let mut o = Vec::new();
                    let mut src: &[u8] = b"inner data 0123456789";
                    let r = (self.inner)(&mut src, &mut o);
                    if r.is_err() || o != self.want {
                        self.inner_ok = false;
                    }
                    self.out.extend_from_slice(b);
                    Ok(b.len())
                }
                fn flush(&mut self) -> io::Result<()> {
                    Ok(())
                }
            }
            let inputs: Vec<Vec<u8>> = vec![vec![], b"a".to_vec(), (0..300u32).map(|i| (i * 7) as u8).collect(), (0..70000u32).map(|i| (i.wrapping_mul(2654435761) >> 20) as u8).collect()];
            let mut n = 0u64;
            for (on, outer) in encs.iter() {
                for (inn, inner) in encs.iter() {
                    let mut want_inner = Vec::new();
                    let mut src: &[u8] = b"inner data 0123456789";
                    let _ = inner(&mut src, &mut want_inner);
                    for x in &inputs {
                        let mut plain = Vec::new();
                        let mut src: &[u8] = x;
                        let _ = outer(&mut src, &mut plain);
                        for piece in [1usize, 4096, usize::MAX] {
                            // (what the outer encoder emits for the same fragmentation without anything nested)
                            let base = {
                                let mut rd = NestRd { data: x, pos: 0, piece, inner: *inner, inner_ok: true, want: Vec::new(), nest: false };
                                let mut out = Vec::new();
                                let _ = outer(&mut rd, &mut out);
                                out
                            };
                            for side in 0..2 {
                                n += 1;
                                ctx.eval(1);
                                ctx.nontriv(1);
                                crate::cases::IN_GUARD.with(|g| g.set(true));
                                let res = std::panic::catch_unwind(std::panic::AssertUnwindSafe(|| {
                                    if side == 0 {
                                        let mut rd = NestRd { data: x, pos: 0, piece, inner: *inner, inner_ok: true, want: want_inner.clone(), nest: true };
                                        let mut out = Vec::new();
                                        let r = outer(&mut rd, &mut out);
                                        (r.is_ok(), out, rd.inner_ok)
                                    } else {
                                        let mut wr = NestWr { out: Vec::new(), inner: *inner, inner_ok: true, want: want_inner.clone() };
                                        let mut src: &[u8] = x;
                                        // (the sink is a Vec-based type of its own; the outer encoder writes into it directly)
                                        let r = match *on {
                                            "lzma_compress" => lzma_rs::lzma_compress(&mut src, &mut wr),
                                            "lzma2_compress" => lzma_rs::lzma2_compress(&mut src, &mut wr),
                                            _ => lzma_rs::xz_compress(&mut src, &mut wr),
                                        };
                                        (r.is_ok(), wr.out, wr.inner_ok)
                                    }
                                }));
                                crate::cases::IN_GUARD.with(|g| g.set(false));
                                let problem = match res {
                                    Err(_) => Some("panicked".to_string()),
                                    Ok((ok, out, inner_ok)) => {
                                        if !ok {
                                            Some("the outer call returned Err".into())
                                        } else if out != *(if side == 0 { &base } else { &plain }) {
                                            Some("the outer call's output differs from its output for the same source and sink without the nested calls".into())
                                        } else if !inner_ok {
                                            Some("an inner call failed or produced other bytes than it does alone".into())
                                        } else {
                                            None
                                        }
                                    }
                                };
                                if let Some(pb) = problem {
                                    ctx.violation_text(&format!("{} of {} bytes whose {} runs {} on 21 bytes at every call (pieces of {} bytes): {}", on, x.len(), if side == 0 { "source" } else { "sink" }, inn, if piece == usize::MAX { "unlimited".to_string() } else { piece.to_string() }, pb), json!({"outer": on, "inner": inn, "input_len": x.len(), "side": if side == 0 { "source" } else { "sink" }, "piece": piece as u64}));
                                }
                            }
                        }
                    }
                }
            }
            ctx.scope_done(name, n, t0, "3 outer x 3 inner encoders x 4 inputs x 3 piece sizes, nested through the source and through the sink");
        }
    }
    // ---------------------------------------------------------------- inputs beyond 4 GiB: nothing is stored - a generated
    // source, a sink that keeps the running total and the last bytes. xz_compress: the index and the footer at the end
    // must describe the block that was actually written (sizes beyond 2^32); lzma2_compress: total = n + 3 per chunk + 1
    {
        let name = "inputs-beyond-4GiB";
        if ctx.may_start(name) {
            use std::io::{self, BufRead, Read, Write};
            struct Gen {
                left: u64,
                pat: Vec<u8>,
            }
            impl Read for Gen {
                fn read(&mut self, out: &mut [u8]) -> io::Result<usize> {
                    let n = (out.len() as u64).min(self.left).min(self.pat.len() as u64) as usize;
                    out[..n].copy_from_slice(&self.pat[..n]);
                    self.left -= n as u64;
                    Ok(n)
                }
            }
            impl BufRead for Gen {
                fn fill_buf(&mut self) -> io::Result<&[u8]> {
                    let n = (self.pat.len() as u64).min(self.left) as usize;
                    Ok(&self.pat[..n])
                }
                fn consume(&mut self, n: usize) {
                    self.left -= n as u64;
                }
            }
            struct Tail {
                total: u64,
                tail: Vec<u8>,
            }
            impl Write for Tail {
                fn write(&mut self, b: &[u8]) -> io::Result<usize> {
                    self.total += b.len() as u64;
                    self.tail.extend_from_slice(b);
                    if self.tail.len() > 4096 {
                        let cut = self.tail.len() - 256;
                        self.tail.drain(..cut);
                    }
                    Ok(b.len())
                }
                fn flush(&mut self) -> io::Result<()> {
                    Ok(())
                }
            }
            let t0 = Instant::now();
            let pat: Vec<u8> = (0..65536u32).map(|i| (i.wrapping_mul(2654435761) >> 21) as u8).collect();
            let unmbi = |b: &[u8]| -> Option<(u64, usize)> {
                let mut v = 0u64;
                for (i, x) in b.iter().enumerate().take(9) {
                    v |= ((x & 0x7F) as u64) << (7 * i);
                    if x & 0x80 == 0 {
                        return Some((v, i + 1));
                    }
                }
                None
            };
            // (2^35 + 7: the index's size fields need a sixth 7-bit group; xz_compress only - lzma2_compress has no size field)
            let sizes = [(1u64 << 32) + 123_457, (1u64 << 32) - 5, (1u64 << 35) + 7];
            par_for(sizes.len() as u64 * 2 - 1, |i| {
                let n = sizes[i as usize / 2];
                let xzf = i % 2 == 0;
                let mut src = Gen { left: n, pat: pat.clone() };
                let mut sink = Tail { total: 0, tail: Vec::new() };
                let r = std::panic::catch_unwind(std::panic::AssertUnwindSafe(|| if xzf { lzma_rs::xz_compress(&mut src, &mut sink) } else { lzma_rs::lzma2_compress(&mut src, &mut sink) }));
                ctx.eval(1);
                ctx.nontriv(1);
                let chunks = (n + 65535) / 65536;
                let problem: Option<String> = match r {
                    Err(_) => Some("panicked".into()),
                    Ok(Err(e)) => Some(format!("returned Err({})", e)),
                    Ok(Ok(())) => {
                        if !xzf {
                            let want = n + 3 * chunks + 1;
                            if sink.total != want { Some(format!("wrote {} bytes, a stream of {} stored chunks for {} input bytes has {}", sink.total, chunks, n, want)) } else { None }
                        } else {
                            let t = &sink.tail;
                            (|| -> Option<String> {
                                if t.len() < 40 || &t[t.len() - 2..] != b"YZ" {
                                    return Some("no stream footer at the end".into());
                                }
                                let f = &t[t.len() - 12..];
                                let backward = u32::from_le_bytes([f[4], f[5], f[6], f[7]]) as usize;
                                let isz = (backward + 1) * 4;
                                if t.len() < 12 + isz {
                                    return Some(format!("backward size {} does not fit", backward));
                                }
                                let ix = &t[t.len() - 12 - isz..t.len() - 12];
                                if ix[0] != 0 || ix[1] != 1 {
                                    return Some(format!("index does not start with 00 01: {:02x?}", &ix[..2]));
                                }
                                let (unpadded, a) = match unmbi(&ix[2..]) {
                                    Some(x) => x,
                                    None => return Some(format!("the index record's first size is not a variable-length integer of <= 9 bytes: {:02x?}", &ix[2..ix.len().min(13)])),
                                };
                                let (unc, _) = match unmbi(&ix[2 + a..]) {
                                    Some(x) => x,
                                    None => return Some(format!("the index record's second size is not a variable-length integer of <= 9 bytes: {:02x?}", &ix[2 + a..ix.len().min(13 + a)])),
                                };
                                let padded = (unpadded + 3) / 4 * 4;
                                if unc != n {
                                    return Some(format!("index record says {} uncompressed bytes, {} were given", unc, n));
                                }
                                if 12 + padded + isz as u64 + 12 != sink.total {
                                    return Some(format!("index record says the block occupies {} (+ padding) bytes, but {} bytes were written in all (header 12 + block + index {} + footer 12)", unpadded, sink.total, isz));
                                }
                                None
                            })()
                        }
                    }
                };
                if let Some(p) = problem {
                    ctx.violation_text(&format!("{} of {} generated bytes into a counting sink: {}", if xzf { "xz_compress" } else { "lzma2_compress" }, n, p), json!({"input_bytes": n, "pattern": "65536-byte block (i*2654435761>>21) repeated"}));
                }
            });
            ctx.scope_done(name, sizes.len() as u64 * 2 - 1, t0, "xz_compress / lzma2_compress of 2^32-5 and 2^32+123457 bytes, xz_compress of 2^35+7 bytes; index, footer and totals checked");
        }
    }
    ctx.finish()
}

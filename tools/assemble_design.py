#!/usr/bin/env python3
"""Rebuilds sections 11-12 of DESIGN.md from tools/design_asbuilt_{head,tail}.md and the generated tables."""
import json, subprocess, os, glob
d = open('/verif/DESIGN.md').read()
marker = "## 11. As built (round 1)"
if marker in d:
    d = d[:d.index(marker)]
head = open('/verif/tools/design_asbuilt_head.md').read()
tail = open('/verif/tools/design_asbuilt_tail.md').read()
cov = subprocess.check_output(['python3', '/verif/tools/design_tables.py']).decode()
# seeds
rows = ["| seed | property | change (sub-agent's summary) | needs | detected by |", "|---|---|---|---|---|"]
for dd in sorted(glob.glob('/verif/seeded/C*-*/')):
    m = json.load(open(dd + 'meta.json'))
    name = os.path.basename(dd.rstrip('/'))
    rows.append("| %s | %s | %s | %s | %s |" % (name, m['property'], (m['summary'] or '').replace('|', '/').replace('\n', ' ')[:260], (m['needs'] or '').replace('|', '/').replace('\n', ' ')[:200], (", ".join(m['confirmed']['detected_by_quick_checks']) if m.get('expect_detected') is not False else ("not a violation on the current tree (see text)" + ("; before fix: " + ", ".join(m['confirmed'].get('detected_before_fix_by', [])) if m['confirmed'].get('detected_before_fix_by') else "")))))
seeds = "\n".join(rows)
# mutants
mr = ["| mutant | property | check exit | VIOLATION lines | first counterexample |", "|---|---|---|---|---|"]
p = '/verif/mutants/selftest_results.json'
if os.path.exists(p):
    for r in json.load(open(p)):
        if r['mutant'].startswith('seeded-'):
            continue
        mr.append("| %s | %s | %s | %s | %s |" % (r['mutant'], r['property'], r['check_exit'], r['violation_lines'], r['first'].replace('|', '/')[:160]))
mut = "\n".join(mr)
# round-4 first-run statistics from the kept metadata (-7 / -8 seeds)
r4 = [json.load(open(dd + 'meta.json')) for dd in sorted(glob.glob('/verif/seeded/C*-[78]/'))]
own = sum(1 for m in r4 if m['confirmed'].get('own_property_check_detected_on_first_run'))
r4_stats = "%d of %d were caught at once by the targeted check; the others were observed misses of that check (some of them reported by the check of another property, see the table)" % (own, len(r4))
tail = tail.replace('@@R4_STATS@@', r4_stats)
r5 = [json.load(open(dd + 'meta.json')) for dd in sorted(glob.glob('/verif/seeded/C*-9/') + glob.glob('/verif/seeded/C*-10/'))]
own5 = sum(1 for m in r5 if m['confirmed'].get('own_property_check_detected_on_first_run'))
any5 = sum(1 for m in r5 if m['confirmed'].get('first_run', {}).get('detected_by'))
r6 = [json.load(open(dd + 'meta.json')) for dd in sorted(glob.glob('/verif/seeded/C*-11/') + glob.glob('/verif/seeded/C*-12/'))]
own6 = sum(1 for m in r6 if m['confirmed'].get('own_property_check_detected_on_first_run'))
any6 = sum(1 for m in r6 if m['confirmed'].get('first_run', {}).get('detected_by'))
tail = tail.replace('@@R6_STATS@@', "%d of %d were caught at once by the targeted check, %d of %d by some check" % (own6, len(r6), any6, len(r6)))
r7 = [json.load(open(dd + 'meta.json')) for dd in sorted(glob.glob('/verif/seeded/C*-13/') + glob.glob('/verif/seeded/C*-14/'))]
own7 = sum(1 for m in r7 if m['confirmed'].get('own_property_check_detected_on_first_run'))
any7 = sum(1 for m in r7 if m['confirmed'].get('first_run', {}).get('detected_by'))
tail = tail.replace('@@R7_STATS@@', "%d of %d were caught at once by the targeted check, %d of %d by some check" % (own7, len(r7), any7, len(r7)))
def rstats(sfx):
    ms = [json.load(open(dd + 'meta.json')) for s_ in sfx for dd in sorted(glob.glob('/verif/seeded/C*-%d/' % s_))]
    own_ = sum(1 for m in ms if m['confirmed'].get('own_property_check_detected_on_first_run'))
    any_ = sum(1 for m in ms if m['confirmed'].get('first_run', {}).get('detected_by'))
    return "%d of %d were caught at once by the targeted check, %d of %d by some check" % (own_, len(ms), any_, len(ms)), ms
r8s, r8 = rstats([15, 16])
r9s, r9 = rstats([17])
tail = tail.replace('@@R8_STATS@@', r8s)
tail = tail.replace('@@R9_STATS@@', r9s if r9 else "not run")
r10s, r10 = rstats([18])
tail = tail.replace('@@R10_STATS@@', r10s if r10 else "not run")
r10t = '/verif/tools/design_round10.md'
tail = tail.replace('@@R10_TEXT@@', open(r10t).read().strip() if os.path.exists(r10t) else "")
for rn, sfx in ((11, [19]), (12, [20]), (13, [21]), (14, [22]), (15, [23])):
    rs_, rm_ = rstats(sfx)
    tail = tail.replace('@@R%d_STATS@@' % rn, rs_ if rm_ else "not run")
    rt_ = '/verif/tools/design_round%d.md' % rn
    tail = tail.replace('@@R%d_TEXT@@' % rn, open(rt_).read().strip() if os.path.exists(rt_) else "")
r9t = '/verif/tools/design_round9.md'
tail = tail.replace('@@R9_TEXT@@', open(r9t).read().strip() if os.path.exists(r9t) else "")
nseeds = len(glob.glob('/verif/seeded/C*-*/'))
tail = tail.replace('@@NSEEDS@@', str(nseeds)).replace('@@NROUNDS_TEXT@@', "sixteen per property in eight rounds - the C18 agent of round 8 delivered one - plus one per property in each of rounds 9 to 15 (no C17 change in round 10)" if r10 else "sixteen per property in eight rounds - the C18 agent of round 8 delivered one - plus one per property in a ninth" if r9 else "sixteen per property, in eight rounds; the C18 agent of round 8 delivered one")
notdet = [os.path.basename(dd.rstrip('/')) for dd in sorted(glob.glob('/verif/seeded/C*-*/')) if json.load(open(dd + 'meta.json')).get('expect_detected') is False]
tail = tail.replace('@@NOT_EXPECTED@@', ", ".join(notdet))
ndo = sum(1 for dd in glob.glob('/verif/seeded/C*-*/') if 'detecting_check' in json.load(open(dd + 'meta.json')))
tail = tail.replace('@@NDETOTHER@@', str(ndo))
tail = tail.replace('@@R5_STATS@@', "%d of %d were caught at once by the targeted check, %d of %d by some check" % (own5, len(r5), any5, len(r5)))
tail = tail.replace('@@COVERAGE_TABLE@@', cov).replace('@@SEED_TABLE@@', seeds).replace('@@MUTANT_TABLE@@', mut)
open('/verif/DESIGN.md', 'w').write(d.rstrip('\n') + "\n\n" + head + tail)
print("DESIGN.md assembled: %d bytes" % os.path.getsize('/verif/DESIGN.md'))

//! Replayable cases: every call the checks make into lzma-rs is described by a `Case`, executed
//! by `run_case` (under catch_unwind, with harness readers/sinks), and judged on the `Obs` it returns.
//! `lzmc replay <file>` runs exactly the same function.
use crate::common::{heap_mark, heap_peak_since, hex, slot_enter, slot_leave, unhex, H128};
use lzma_rs::decompress::raw::{Lzma2Decoder, LzmaDecoder, LzmaParams, LzmaProperties};
use lzma_rs::decompress::{Options, Stream, UnpackedSize};
use lzma_rs::verif::{LzAccumBuffer, LzBuffer, LzCircularBuffer};
use serde::{Deserialize, Deserializer, Serialize, Serializer};
use std::cell::RefCell;
use std::io::{self, BufRead, Read, Write};
use std::panic::{catch_unwind, AssertUnwindSafe};
use std::rc::Rc;

// ------------------------------------------------------------------ byte strings as hex in JSON
#[derive(Clone, Debug, PartialEq, Eq, Hash, Default)]
pub struct Hex(pub Vec<u8>);
impl Serialize for Hex {
    fn serialize<S: Serializer>(&self, s: S) -> Result<S::Ok, S::Error> {
        s.serialize_str(&hex(&self.0))
    }
}
impl<'de> Deserialize<'de> for Hex {
    fn deserialize<D: Deserializer<'de>>(d: D) -> Result<Self, D::Error> {
        let s = String::deserialize(d)?;
        unhex(&s).map(Hex).map_err(serde::de::Error::custom)
    }
}
impl From<Vec<u8>> for Hex {
    fn from(v: Vec<u8>) -> Self {
        Hex(v)
    }
}
impl From<&[u8]> for Hex {
    fn from(v: &[u8]) -> Self {
        Hex(v.to_vec())
    }
}

// ------------------------------------------------------------------ options
#[derive(Clone, Copy, Debug, PartialEq, Eq, Hash, Serialize, Deserialize)]
pub enum SizeOpt {
    Header,
    HeaderProvided(Option<u64>),
    Provided(Option<u64>),
}
#[derive(Clone, Copy, Debug, PartialEq, Eq, Hash, Serialize, Deserialize)]
pub struct Opts {
    pub size: SizeOpt,
    pub memlimit: Option<u64>,
    pub allow_incomplete: bool,
}
impl Default for Opts {
    fn default() -> Self {
        Opts { size: SizeOpt::Header, memlimit: None, allow_incomplete: false }
    }
}
impl Opts {
    pub fn is_default(&self) -> bool {
        matches!(self.size, SizeOpt::Header) && self.memlimit.is_none() && !self.allow_incomplete
    }
    pub fn to_lib(&self) -> Options {
        if self.is_default() {
            // what a caller who does not set anything gets
            return Options::default();
        }
        Options {
            unpacked_size: match self.size {
                SizeOpt::Header => UnpackedSize::ReadFromHeader,
                SizeOpt::HeaderProvided(x) => UnpackedSize::ReadHeaderButUseProvided(x),
                SizeOpt::Provided(x) => UnpackedSize::UseProvided(x),
            },
            memlimit: self.memlimit.map(|m| m as usize),
            allow_incomplete: self.allow_incomplete,
        }
    }
    pub fn header_len(&self) -> usize {
        match self.size {
            SizeOpt::Provided(_) => 5,
            _ => 13,
        }
    }
}
#[derive(Clone, Copy, Debug, PartialEq, Eq, Hash, Serialize, Deserialize)]
pub enum EncSize {
    HeaderNone,
    HeaderSome(u64),
    Skip,
}
#[derive(Clone, Copy, Debug, PartialEq, Eq, Hash, Serialize, Deserialize)]
pub enum Fmt {
    Lzma,
    Lzma2,
    Xz,
}

// ------------------------------------------------------------------ environment: reader
#[derive(Clone, Debug, PartialEq, Eq, Hash, Serialize, Deserialize, Default)]
pub struct Rd {
    /// positions at which the source never exposes or returns data across
    #[serde(default)]
    pub cuts: Vec<usize>,
    /// additionally cut at every multiple of this (0 = off)
    #[serde(default)]
    pub period: usize,
    /// fail the k-th call (0-based) of read()/fill_buf() with ErrorKind::Other
    #[serde(default)]
    pub fail_at: Option<usize>,
    /// wrap the source in std::io::BufReader with this capacity (0 = off)
    #[serde(default)]
    pub bufreader: usize,
    /// kind of the injected failure: 0 = ErrorKind::Other, 1 = Interrupted, 2 = WouldBlock, 3 = TimedOut (transient kinds: a caller
    /// may legitimately retry them, so only "Err, or the fault-free result" can be demanded)
    #[serde(default)]
    pub fail_kind: u8,
}
impl Rd {
    pub fn is_plain(&self) -> bool {
        self.cuts.is_empty() && self.period == 0 && self.fail_at.is_none() && self.bufreader == 0
    }
}

pub struct CutReader<'a> {
    data: &'a [u8],
    pub pos: usize,
    cuts: Vec<usize>,
    period: usize,
    fail_at: Option<usize>,
    fail_kind: u8,
    pub calls: usize,
    pub fault_hit: bool,
}
impl<'a> CutReader<'a> {
    pub fn new(data: &'a [u8], rd: &Rd) -> Self {
        let mut cuts = rd.cuts.clone();
        cuts.sort_unstable();
        CutReader { data, pos: 0, cuts, period: rd.period, fail_at: rd.fail_at, fail_kind: rd.fail_kind, calls: 0, fault_hit: false }
    }
    fn window_end(&self) -> usize {
        let mut end = self.data.len();
        // first cut strictly after pos
        let i = self.cuts.partition_point(|&c| c <= self.pos);
        if i < self.cuts.len() && self.cuts[i] < end {
            end = self.cuts[i];
        }
        if self.period > 0 {
            let next = (self.pos / self.period + 1) * self.period;
            if next < end {
                end = next;
            }
        }
        end
    }
    fn call(&mut self) -> io::Result<()> {
        let k = self.calls;
        self.calls += 1;
        if self.fail_at == Some(k) {
            self.fault_hit = true;
            let kind = match self.fail_kind {
                1 => io::ErrorKind::Interrupted,
                2 => io::ErrorKind::WouldBlock,
                3 => io::ErrorKind::TimedOut,
                _ => io::ErrorKind::Other,
            };
            return Err(io::Error::new(kind, "injected read fault"));
        }
        Ok(())
    }
}
impl<'a> Read for CutReader<'a> {
    fn read(&mut self, buf: &mut [u8]) -> io::Result<usize> {
        self.call()?;
        let end = self.window_end();
        let n = buf.len().min(end - self.pos);
        buf[..n].copy_from_slice(&self.data[self.pos..self.pos + n]);
        self.pos += n;
        Ok(n)
    }
}
impl<'a> BufRead for CutReader<'a> {
    fn fill_buf(&mut self) -> io::Result<&[u8]> {
        self.call()?;
        let end = self.window_end();
        Ok(&self.data[self.pos..end])
    }
    fn consume(&mut self, amt: usize) {
        self.pos += amt;
        assert!(self.pos <= self.data.len(), "consume beyond data");
    }
}

// ------------------------------------------------------------------ environment: sink
#[derive(Clone, Debug, PartialEq, Eq, Hash, Serialize, Deserialize, Default)]
pub struct Sk {
    /// accept at most this many bytes per write call (0 = unlimited)
    #[serde(default)]
    pub chunk: usize,
    /// never accept data across these total-byte positions in one call
    #[serde(default)]
    pub cuts: Vec<usize>,
    /// fail the k-th write call (0-based)
    #[serde(default)]
    pub fail_write_at: Option<usize>,
    /// fail the k-th flush call (0-based)
    #[serde(default)]
    pub fail_flush_at: Option<usize>,
    /// capacity set aside before the run, so that the sink itself never reallocates (heap measurements)
    #[serde(default)]
    pub reserve: usize,
    /// the k-th write call (0-based) accepts nothing: returns Ok(0)
    #[serde(default)]
    pub zero_write_at: Option<usize>,
    /// kind of the injected write / flush failure: 0 = Other, 2 = WouldBlock, 3 = TimedOut
    #[serde(default)]
    pub fail_kind: u8,
    /// the sink implements write_vectored itself: one call may accept bytes from several buffers (up to `chunk` / the
    /// next cut), like a socket or a file does; without it the default (first non-empty buffer only) applies
    #[serde(default)]
    pub vectored: bool,
    /// a sink of fixed capacity (like `&mut [u8]`): once this many bytes have been accepted every write returns Ok(0)
    #[serde(default)]
    pub full_after: Option<usize>,
}
impl Sk {
    pub fn is_plain(&self) -> bool {
        self.chunk == 0 && self.cuts.is_empty() && self.fail_write_at.is_none() && self.fail_flush_at.is_none() && self.reserve == 0 && !self.vectored && self.full_after.is_none() && self.zero_write_at.is_none()
    }
}
#[derive(Default, Debug)]
pub struct SinkState {
    pub data: Vec<u8>,
    pub writes: usize,
    pub flushes: usize,
    /// data.len() at the time of the last successful flush
    pub flushed_upto: Option<usize>,
    pub fault_hit: bool,
    /// write calls observed after an injected fault
    pub calls_after_fault: usize,
}
#[derive(Clone)]
pub struct TestSink {
    pub st: Rc<RefCell<SinkState>>,
    spec: Sk,
}
impl TestSink {
    pub fn new(spec: &Sk) -> Self {
        let mut spec = spec.clone();
        spec.cuts.sort_unstable();
        let st = SinkState { data: Vec::with_capacity(spec.reserve), ..SinkState::default() };
        TestSink { st: Rc::new(RefCell::new(st)), spec }
    }
}
impl std::fmt::Debug for TestSink {
    fn fmt(&self, f: &mut std::fmt::Formatter) -> std::fmt::Result {
        write!(f, "TestSink")
    }
}
impl Write for TestSink {
    fn write(&mut self, buf: &[u8]) -> io::Result<usize> {
        let mut s = self.st.borrow_mut();
        let k = s.writes;
        s.writes += 1;
        if s.fault_hit {
            s.calls_after_fault += 1;
        }
        if self.spec.fail_write_at == Some(k) {
            s.fault_hit = true;
            let kind = match self.spec.fail_kind {
                2 => io::ErrorKind::WouldBlock,
                3 => io::ErrorKind::TimedOut,
                _ => io::ErrorKind::Other,
            };
            return Err(io::Error::new(kind, "injected write fault"));
        }
        if self.spec.zero_write_at == Some(k) && !buf.is_empty() {
            s.fault_hit = true;
            return Ok(0);
        }
        let mut n = buf.len();
        if self.spec.chunk > 0 {
            n = n.min(self.spec.chunk);
        }
        if let Some(cap) = self.spec.full_after {
            n = n.min(cap.saturating_sub(s.data.len()));
            if n == 0 && !buf.is_empty() {
                s.fault_hit = true;
                return Ok(0);
            }
        }
        let total = s.data.len();
        let i = self.spec.cuts.partition_point(|&c| c <= total);
        if i < self.spec.cuts.len() {
            n = n.min(self.spec.cuts[i] - total);
        }
        s.data.extend_from_slice(&buf[..n]);
        Ok(n)
    }
    fn write_vectored(&mut self, bufs: &[io::IoSlice<'_>]) -> io::Result<usize> {
        if self.spec.vectored {
            let all: Vec<u8> = bufs.iter().flat_map(|b| b.iter().copied()).collect();
            self.write(&all)
        } else {
            let first = bufs.iter().find(|b| !b.is_empty()).map_or(&[][..], |b| &**b);
            self.write(first)
        }
    }
    fn flush(&mut self) -> io::Result<()> {
        let mut s = self.st.borrow_mut();
        let k = s.flushes;
        s.flushes += 1;
        if self.spec.fail_flush_at == Some(k) {
            s.fault_hit = true;
            return Err(io::Error::new(io::ErrorKind::Other, "injected flush fault"));
        }
        s.flushed_upto = Some(s.data.len());
        Ok(())
    }
}

// ------------------------------------------------------------------ operations on stateful objects
#[derive(Clone, Debug, PartialEq, Eq, Hash, Serialize, Deserialize)]
pub enum SOp {
    Write(Hex),
    /// like io::Write::write_all, but a write returning Ok(0) ends the loop without an error
    WriteAll(Hex),
    Flush,
    GetOutput,
    Finish,
    /// io::Write::write_all as implemented for (or inherited by) Stream - the method callers and io::copy use
    StdWriteAll(Hex),
    /// the slices are offered through io::Write::write_vectored until everything is consumed (or a call returns Ok(0) / Err);
    /// n = bytes consumed
    WriteVectoredAll(Vec<Hex>),
}
#[derive(Clone, Debug, PartialEq, Eq, Hash, Serialize, Deserialize)]
pub enum RawOp {
    Dec(Hex),
    /// reset(None)
    Reset,
    /// reset(Some(size))
    ResetSize(Option<u64>),
    /// decompress from a source that hands over at most `1` bytes per refill (period), instead of one slice
    DecCut(Hex, usize),
    /// decompress into a sink whose k-th write call (0-based) fails with ErrorKind::Other
    /// (k >= 1_000_000: the (k - 1_000_000)-th flush call fails instead)
    DecFail(Hex, usize),
}
#[derive(Clone, Debug, PartialEq, Eq, Hash, Serialize, Deserialize)]
pub enum WOp {
    Lit(u8),
    Lz(usize, usize),
    LastN(usize),
    LastOr(u8),
    Bytes(Hex),
    Reset,
    Finish,
}

#[derive(Clone, Debug, PartialEq, Eq, Hash, Serialize, Deserialize)]
pub enum Case {
    Dec { fmt: Fmt, opts: Opts, input: Hex, rd: Rd, sk: Sk },
    Enc { fmt: Fmt, size: EncSize, input: Hex, rd: Rd, sk: Sk },
    RawLzma { lc: u32, lp: u32, pb: u32, dict: u32, size: Option<u64>, memlimit: Option<u64>, ops: Vec<RawOp> },
    RawLzma2 { ops: Vec<RawOp> },
    Stream { opts: Opts, sk: Sk, ops: Vec<SOp> },
    Window { circular: bool, dict: usize, memlimit: u64, ops: Vec<WOp> },
    /// the documented way to use the raw decoder on a .lzma file: LzmaParams::read_header on the whole input, then
    /// LzmaDecoder::new(params, memlimit).decompress on what the header parser left in the reader
    RawLzmaHdr { opts: Opts, input: Hex },
}

// ------------------------------------------------------------------ observations
#[derive(Clone, Debug, PartialEq, Eq, Serialize, Deserialize)]
pub enum V {
    Ok,
    Err(String),
    Panic(String),
}
impl V {
    pub fn is_ok(&self) -> bool {
        matches!(self, V::Ok)
    }
    pub fn is_err(&self) -> bool {
        matches!(self, V::Err(_))
    }
    pub fn is_panic(&self) -> bool {
        matches!(self, V::Panic(_))
    }
    pub fn class(&self) -> &'static str {
        match self {
            V::Ok => "ok",
            V::Err(_) => "err",
            V::Panic(_) => "panic",
        }
    }
}
#[derive(Clone, Debug, PartialEq, Eq, Serialize, Deserialize)]
pub struct OpObs {
    pub v: V,
    /// op-specific number: bytes consumed by write / returned byte / output length
    pub n: Option<u64>,
    /// bytes in the sink after the op
    pub sink_len: usize,
    /// an injected sink fault has been hit by the end of this op
    #[serde(default)]
    pub fault: bool,
}
#[derive(Clone, Debug, Serialize, Deserialize)]
pub struct Obs {
    pub v: V,
    pub out: Hex,
    pub consumed: usize,
    pub reads: usize,
    pub writes: usize,
    pub flushes: usize,
    /// every byte in the sink was followed by a successful flush
    pub flushed_all: bool,
    pub fault_hit: bool,
    pub sink_calls_after_fault: usize,
    pub peak_heap: usize,
    pub ops: Vec<OpObs>,
}
impl Obs {
    pub fn same_as(&self, o: &Obs) -> bool {
        self.v.class() == o.v.class()
            && self.out == o.out
            && self.consumed == o.consumed
            && self.ops.len() == o.ops.len()
            && self.ops.iter().zip(o.ops.iter()).all(|(a, b)| a.v.class() == b.v.class() && a.n == b.n && a.sink_len == b.sink_len)
    }
    pub fn brief(&self) -> String {
        let ops = if self.ops.is_empty() {
            String::new()
        } else {
            format!(
                " ops=[{}]",
                self.ops
                    .iter()
                    .map(|o| format!("{}{}", o.v.class(), o.n.map(|n| format!(":{}", n)).unwrap_or_default()))
                    .collect::<Vec<_>>()
                    .join(",")
            )
        };
        format!(
            "verdict={:?} out_len={} out={} consumed={} writes={} flushes={} peak_heap={}{}",
            self.v,
            self.out.0.len(),
            crate::common::brief_bytes(&self.out.0),
            self.consumed,
            self.writes,
            self.flushes,
            self.peak_heap,
            ops
        )
    }
}

fn panic_msg(p: Box<dyn std::any::Any + Send>) -> String {
    if let Some(s) = p.downcast_ref::<&str>() {
        s.to_string()
    } else if let Some(s) = p.downcast_ref::<String>() {
        s.clone()
    } else {
        "<non-string panic>".into()
    }
}

thread_local! {
    /// true while the code under test runs (its panics are caught and judged, not printed)
    pub static IN_GUARD: std::cell::Cell<bool> = const { std::cell::Cell::new(false) };
}

fn guard<T, E: std::fmt::Display>(f: impl FnOnce() -> Result<T, E>) -> (V, Option<T>) {
    IN_GUARD.with(|g| g.set(true));
    let r = catch_unwind(AssertUnwindSafe(f));
    IN_GUARD.with(|g| g.set(false));
    match r {
        Ok(Ok(t)) => (V::Ok, Some(t)),
        Ok(Err(e)) => (V::Err(e.to_string()), None),
        Err(p) => (V::Panic(panic_msg(p)), None),
    }
}

fn base_obs() -> Obs {
    Obs {
        v: V::Ok,
        out: Hex(vec![]),
        consumed: 0,
        reads: 0,
        writes: 0,
        flushes: 0,
        flushed_all: false,
        fault_hit: false,
        sink_calls_after_fault: 0,
        peak_heap: 0,
        ops: vec![],
    }
}

fn fill_sink(o: &mut Obs, sink: &TestSink) {
    let mut s = sink.st.borrow_mut();
    o.writes = s.writes;
    o.flushes = s.flushes;
    o.flushed_all = s.flushed_upto == Some(s.data.len());
    // moved, not copied: the copy would show up in the heap peak of the case
    o.out = Hex(std::mem::take(&mut s.data));
    o.fault_hit |= s.fault_hit;
    o.sink_calls_after_fault = s.calls_after_fault;
}

// ------------------------------------------------------------------ fast paths used by high-volume scopes
/// One-shot decode with a plain slice reader and Vec sink. Returns (verdict, output, consumed).
pub fn dec_plain(fmt: Fmt, opts: &Opts, input: &[u8]) -> (V, Vec<u8>, usize) {
    let mut out = Vec::new();
    let mut rdr: &[u8] = input;
    let lib = opts.to_lib();
    let (v, _) = guard(|| match fmt {
        // default options: the entry point without an options argument (half of the calls, by input length)
        Fmt::Lzma if opts.is_default() && input.len() % 2 == 0 => lzma_rs::lzma_decompress(&mut rdr, &mut out),
        Fmt::Lzma => lzma_rs::lzma_decompress_with_options(&mut rdr, &mut out, &lib),
        Fmt::Lzma2 => lzma_rs::lzma2_decompress(&mut rdr, &mut out),
        Fmt::Xz => lzma_rs::xz_decompress(&mut rdr, &mut out),
    });
    (v, out, input.len() - rdr.len())
}

pub fn enc_plain(fmt: Fmt, size: EncSize, input: &[u8]) -> (V, Vec<u8>) {
    let mut out = Vec::new();
    let mut rdr: &[u8] = input;
    let (v, _) = guard(|| match fmt {
        // WriteToHeader(None) is the documented default: the entry point without options / Options::default()
        Fmt::Lzma if size == EncSize::HeaderNone && input.len() % 3 == 0 => lzma_rs::lzma_compress(&mut rdr, &mut out),
        Fmt::Lzma if size == EncSize::HeaderNone && input.len() % 3 == 1 => lzma_rs::lzma_compress_with_options(&mut rdr, &mut out, &lzma_rs::compress::Options::default()),
        Fmt::Lzma => {
            let o = lzma_rs::compress::Options {
                unpacked_size: match size {
                    EncSize::HeaderNone => lzma_rs::compress::UnpackedSize::WriteToHeader(None),
                    EncSize::HeaderSome(n) => lzma_rs::compress::UnpackedSize::WriteToHeader(Some(n)),
                    EncSize::Skip => lzma_rs::compress::UnpackedSize::SkipWritingToHeader,
                },
            };
            lzma_rs::lzma_compress_with_options(&mut rdr, &mut out, &o)
        }
        Fmt::Lzma2 => lzma_rs::lzma2_compress(&mut rdr, &mut out),
        Fmt::Xz => lzma_rs::xz_compress(&mut rdr, &mut out),
    });
    (v, out)
}

// ------------------------------------------------------------------ stateful harnesses (also used by the explorers)
pub struct StreamH {
    pub s: Option<Stream<TestSink>>,
    pub sink: TestSink,
    /// (graph explorers only) every op applied so far, shared with the watchdog: a call that does not return is
    /// reported with the exact op list that reaches it
    log: Option<std::sync::Arc<crate::common::StreamLog>>,
}
impl StreamH {
    pub fn new(opts: &Opts, sk: &Sk) -> Self {
        let sink = TestSink::new(sk);
        // default options and a plain sink: the constructor without options
        let s = if opts.is_default() && sk.is_plain() { Stream::new(sink.clone()) } else { Stream::new_with_options(&opts.to_lib(), sink.clone()) };
        StreamH { s: Some(s), sink, log: None }
    }
    /// Like `new`, with the op log for the watchdog (not used under run_case, whose heap figures must not see the log).
    pub fn new_logged(opts: &Opts, sk: &Sk) -> Self {
        let mut h = StreamH::new(opts, sk);
        h.log = Some(std::sync::Arc::new(crate::common::StreamLog { opts: *opts, sk: sk.clone(), ops: std::sync::Mutex::new(Vec::new()) }));
        h
    }
    pub fn apply(&mut self, op: &SOp) -> OpObs {
        match self.log.clone() {
            None => self.apply_inner(op),
            Some(l) => {
                l.ops.lock().unwrap().push(op.clone());
                crate::common::slot_enter_stream(&l);
                let r = self.apply_inner(op);
                slot_leave();
                r
            }
        }
    }
    pub fn sink_len(&self) -> usize {
        self.sink.st.borrow().data.len()
    }
    pub fn sink_bytes(&self) -> Vec<u8> {
        self.sink.st.borrow().data.clone()
    }
    fn apply_inner(&mut self, op: &SOp) -> OpObs {
        let (v, n) = match op {
            SOp::Write(d) => {
                let s = self.s.as_mut().expect("stream already finished");
                let (v, n) = guard(|| s.write(&d.0));
                (v, n.map(|x| x as u64))
            }
            SOp::WriteAll(d) => {
                let s = self.s.as_mut().expect("stream already finished");
                let mut off = 0usize;
                let mut v = V::Ok;
                while off < d.0.len() {
                    let (vv, n) = guard(|| s.write(&d.0[off..]));
                    match (vv, n) {
                        (V::Ok, Some(0)) => break,
                        (V::Ok, Some(n)) => off += n,
                        (vv, _) => {
                            v = vv;
                            break;
                        }
                    }
                }
                (v, Some(off as u64))
            }
            SOp::Flush => {
                let s = self.s.as_mut().expect("stream already finished");
                let (v, _) = guard(|| s.flush());
                (v, None)
            }
            SOp::StdWriteAll(d) => {
                let s = self.s.as_mut().expect("stream already finished");
                let (v, _) = guard(|| s.write_all(&d.0));
                (v, None)
            }
            SOp::WriteVectoredAll(parts) => {
                let s = self.s.as_mut().expect("stream already finished");
                let total: usize = parts.iter().map(|p| p.0.len()).sum();
                let mut done = 0usize;
                let mut v = V::Ok;
                while done < total {
                    // the not yet consumed remainder, as slices
                    let mut skip = done;
                    let mut slices: Vec<io::IoSlice> = Vec::new();
                    for p in parts {
                        if skip >= p.0.len() {
                            skip -= p.0.len();
                        } else {
                            slices.push(io::IoSlice::new(&p.0[skip..]));
                            skip = 0;
                        }
                    }
                    let (vv, n) = guard(|| s.write_vectored(&slices));
                    match (vv, n) {
                        (V::Ok, Some(0)) => break,
                        (V::Ok, Some(n)) => done += n,
                        (vv, _) => {
                            v = vv;
                            break;
                        }
                    }
                }
                (v, Some(done as u64))
            }
            SOp::GetOutput => {
                let s = self.s.as_mut().expect("stream already finished");
                // get_output and get_output_mut must agree; Debug formatting must not panic in any state
                let (v, n) = guard(|| -> Result<Option<u64>, String> {
                    let a = s.get_output().map(|w| w.st.borrow().data.len() as u64);
                    let b = s.get_output_mut().map(|w| w.st.borrow().data.len() as u64);
                    let _ = format!("{:?}", s);
                    if a != b {
                        return Err(format!("get_output() gives {:?} but get_output_mut() gives {:?}", a, b));
                    }
                    Ok(a)
                });
                (v, n.flatten())
            }
            SOp::Finish => {
                let s = self.s.take().expect("stream already finished");
                let (v, w) = guard(|| s.finish());
                (v, w.map(|w| w.st.borrow().data.len() as u64))
            }
        };
        OpObs { v, n, sink_len: self.sink_len(), fault: self.sink.st.borrow().fault_hit }
    }
    /// 128-bit fingerprint of the live internal state + sink contents.
    pub fn fingerprint(&self, with_dead: bool) -> u128 {
        let mut h = H128::new();
        match &self.s {
            Some(s) => {
                if with_dead {
                    s.verif_hash_state_with_dead(&mut h)
                } else {
                    s.verif_hash_state(&mut h)
                }
            }
            None => std::hash::Hasher::write_u8(&mut h, 0xEE),
        }
        std::hash::Hasher::write(&mut h, &self.sink.st.borrow().data);
        h.finish128()
    }
    pub fn phase(&self) -> u8 {
        self.s.as_ref().map(|s| s.verif_phase()).unwrap_or(9)
    }
    pub fn window_buf_len(&self) -> usize {
        self.s.as_ref().map(|s| s.verif_window_buf_len()).unwrap_or(0)
    }
    /// total bytes produced by the decoder so far (None before the header is complete / after an error)
    pub fn produced(&self) -> Option<usize> {
        self.s.as_ref().and_then(|s| s.verif_produced())
    }
}

pub enum RawH {
    L(LzmaDecoder),
    L2(Lzma2Decoder),
}
pub struct RawOut {
    pub v: V,
    pub out: Vec<u8>,
    pub consumed: usize,
}
impl RawH {
    pub fn new_lzma(lc: u32, lp: u32, pb: u32, dict: u32, size: Option<u64>, memlimit: Option<u64>) -> Result<RawH, V> {
        let (v, d) = guard(|| LzmaDecoder::new(LzmaParams::new(LzmaProperties { lc, lp, pb }, dict, size), memlimit.map(|m| m as usize)));
        match d {
            Some(d) => Ok(RawH::L(d)),
            None => Err(v),
        }
    }
    pub fn new_lzma2() -> RawH {
        RawH::L2(Lzma2Decoder::new())
    }
    pub fn apply(&mut self, op: &RawOp) -> RawOut {
        match op {
            RawOp::Dec(d) => {
                let mut out = Vec::new();
                let mut rdr: &[u8] = &d.0;
                let (v, _) = match self {
                    RawH::L(x) => guard(|| x.decompress(&mut rdr, &mut out)),
                    RawH::L2(x) => guard(|| x.decompress(&mut rdr, &mut out)),
                };
                RawOut { v, out, consumed: d.0.len() - rdr.len() }
            }
            RawOp::DecCut(d, period) => {
                let mut out = Vec::new();
                let mut cr = CutReader::new(&d.0, &Rd { period: *period, ..Rd::default() });
                let (v, _) = match self {
                    RawH::L(x) => guard(|| x.decompress(&mut cr, &mut out)),
                    RawH::L2(x) => guard(|| x.decompress(&mut cr, &mut out)),
                };
                let consumed = cr.pos;
                RawOut { v, out, consumed }
            }
            RawOp::DecFail(d, k) => {
                let mut sink = TestSink::new(&if *k >= 1_000_000 { Sk { fail_flush_at: Some(*k - 1_000_000), ..Sk::default() } } else { Sk { fail_write_at: Some(*k), ..Sk::default() } });
                let mut rdr: &[u8] = &d.0;
                let (v, _) = match self {
                    RawH::L(x) => guard(|| x.decompress(&mut rdr, &mut sink)),
                    RawH::L2(x) => guard(|| x.decompress(&mut rdr, &mut sink)),
                };
                let out = sink.st.borrow().data.clone();
                RawOut { v, out, consumed: d.0.len() - rdr.len() }
            }
            RawOp::Reset => {
                let (v, _) = match self {
                    RawH::L(x) => guard(|| -> Result<(), String> {
                        x.reset(None);
                        Ok(())
                    }),
                    RawH::L2(x) => guard(|| -> Result<(), String> {
                        x.reset();
                        Ok(())
                    }),
                };
                RawOut { v, out: vec![], consumed: 0 }
            }
            RawOp::ResetSize(s) => {
                let (v, _) = match self {
                    RawH::L(x) => guard(|| -> Result<(), String> {
                        x.reset(Some(*s));
                        Ok(())
                    }),
                    RawH::L2(x) => guard(|| -> Result<(), String> {
                        x.reset();
                        Ok(())
                    }),
                };
                RawOut { v, out: vec![], consumed: 0 }
            }
        }
    }
    pub fn fingerprint(&self) -> u128 {
        let mut h = H128::new();
        match self {
            RawH::L(x) => x.verif_hash_state(&mut h),
            RawH::L2(x) => x.verif_hash_state(&mut h),
        }
        h.finish128()
    }
}

pub enum WinH {
    C(Option<LzCircularBuffer<TestSink>>),
    A(Option<LzAccumBuffer<TestSink>>),
}
pub struct WinHarness {
    pub w: WinH,
    pub sink: TestSink,
}
impl WinHarness {
    pub fn new(circular: bool, dict: usize, memlimit: u64) -> Self {
        let sink = TestSink::new(&Sk::default());
        let ml = if memlimit == u64::MAX { usize::MAX } else { memlimit as usize };
        let w = if circular {
            WinH::C(Some(LzCircularBuffer::from_stream(sink.clone(), dict, ml)))
        } else {
            WinH::A(Some(LzAccumBuffer::from_stream(sink.clone(), ml)))
        };
        WinHarness { w, sink }
    }
    pub fn len(&self) -> usize {
        match &self.w {
            WinH::C(Some(b)) => b.len(),
            WinH::A(Some(b)) => b.len(),
            _ => 0,
        }
    }
    pub fn buf_len(&self) -> usize {
        match &self.w {
            WinH::C(Some(b)) => b.verif_buf_len(),
            WinH::A(Some(b)) => b.verif_buf_len(),
            _ => 0,
        }
    }
    pub fn fingerprint(&self) -> u128 {
        let mut h = H128::new();
        match &self.w {
            WinH::C(Some(b)) => b.verif_hash_state(&mut h),
            WinH::A(Some(b)) => b.verif_hash_state(&mut h),
            _ => std::hash::Hasher::write_u8(&mut h, 0xEE),
        }
        std::hash::Hasher::write(&mut h, &self.sink.st.borrow().data);
        h.finish128()
    }
    pub fn apply(&mut self, op: &WOp) -> OpObs {
        macro_rules! both {
            ($b:ident => $e:expr) => {
                match &mut self.w {
                    WinH::C(Some($b)) => $e,
                    WinH::A(Some($b)) => $e,
                    _ => panic!("window already finished"),
                }
            };
        }
        let (v, n): (V, Option<u64>) = match op {
            WOp::Lit(x) => {
                let (v, _) = both!(b => guard(|| b.append_literal(*x)));
                (v, None)
            }
            WOp::Lz(l, d) => {
                let (v, _) = both!(b => guard(|| b.append_lz(*l, *d)));
                (v, None)
            }
            WOp::LastN(d) => {
                let (v, r) = both!(b => guard(|| b.last_n(*d)));
                (v, r.map(|x| x as u64))
            }
            WOp::LastOr(x) => {
                let (v, r) = both!(b => guard(|| -> Result<u8, String> { Ok(b.last_or(*x)) }));
                (v, r.map(|x| x as u64))
            }
            WOp::Bytes(d) => match &mut self.w {
                WinH::A(Some(b)) => {
                    let (v, _) = guard(|| -> Result<(), String> {
                        b.append_bytes(&d.0);
                        Ok(())
                    });
                    (v, None)
                }
                _ => panic!("Bytes only on accumulating window"),
            },
            WOp::Reset => match &mut self.w {
                WinH::A(Some(b)) => {
                    let (v, _) = guard(|| b.reset());
                    (v, None)
                }
                _ => panic!("Reset only on accumulating window"),
            },
            WOp::Finish => {
                let (v, _) = match &mut self.w {
                    WinH::C(b) => {
                        let b = b.take().expect("finished twice");
                        guard(|| b.finish().map(|_| ()))
                    }
                    WinH::A(b) => {
                        let b = b.take().expect("finished twice");
                        guard(|| b.finish().map(|_| ()))
                    }
                };
                (v, None)
            }
        };
        OpObs { v, n, sink_len: self.sink.st.borrow().data.len(), fault: self.sink.st.borrow().fault_hit }
    }
}

// ------------------------------------------------------------------ run_case
pub fn run_case(c: &Case) -> Obs {
    slot_enter(c);
    let base = heap_mark();
    let mut o = run_case_inner(c);
    o.peak_heap = heap_peak_since(base);
    slot_leave();
    o
}

fn run_case_inner(c: &Case) -> Obs {
    let mut o = base_obs();
    match c {
        Case::Dec { fmt, opts, input, rd, sk } => {
            if rd.is_plain() && sk.is_plain() {
                let (v, out, consumed) = dec_plain(*fmt, opts, &input.0);
                o.v = v;
                o.out = Hex(out);
                o.consumed = consumed;
                return o;
            }
            let mut sink = TestSink::new(sk);
            let lib = opts.to_lib();
            let mut cr = CutReader::new(&input.0, rd);
            let v = if rd.bufreader > 0 {
                let mut br = io::BufReader::with_capacity(rd.bufreader, &mut cr);
                let (v, _) = guard(|| match fmt {
                    Fmt::Lzma => lzma_rs::lzma_decompress_with_options(&mut br, &mut sink, &lib),
                    Fmt::Lzma2 => lzma_rs::lzma2_decompress(&mut br, &mut sink),
                    Fmt::Xz => lzma_rs::xz_decompress(&mut br, &mut sink),
                });
                // logical position = bytes pulled from the source minus bytes still buffered
                let buffered = br.buffer().len();
                drop(br);
                o.consumed = cr.pos - buffered;
                v
            } else {
                let (v, _) = guard(|| match fmt {
                    Fmt::Lzma => lzma_rs::lzma_decompress_with_options(&mut cr, &mut sink, &lib),
                    Fmt::Lzma2 => lzma_rs::lzma2_decompress(&mut cr, &mut sink),
                    Fmt::Xz => lzma_rs::xz_decompress(&mut cr, &mut sink),
                });
                o.consumed = cr.pos;
                v
            };
            o.v = v;
            o.reads = cr.calls;
            o.fault_hit = cr.fault_hit;
            fill_sink(&mut o, &sink);
        }
        Case::Enc { fmt, size, input, rd, sk } => {
            let mut sink = TestSink::new(sk);
            let mut cr = CutReader::new(&input.0, rd);
            let (v, _) = guard(|| match fmt {
                Fmt::Lzma if *size == EncSize::HeaderNone && input.0.len() % 3 == 0 => lzma_rs::lzma_compress(&mut cr, &mut sink),
                Fmt::Lzma if *size == EncSize::HeaderNone && input.0.len() % 3 == 1 => lzma_rs::lzma_compress_with_options(&mut cr, &mut sink, &lzma_rs::compress::Options::default()),
                Fmt::Lzma => {
                    let eo = lzma_rs::compress::Options {
                        unpacked_size: match size {
                            EncSize::HeaderNone => lzma_rs::compress::UnpackedSize::WriteToHeader(None),
                            EncSize::HeaderSome(n) => lzma_rs::compress::UnpackedSize::WriteToHeader(Some(*n)),
                            EncSize::Skip => lzma_rs::compress::UnpackedSize::SkipWritingToHeader,
                        },
                    };
                    lzma_rs::lzma_compress_with_options(&mut cr, &mut sink, &eo)
                }
                Fmt::Lzma2 => lzma_rs::lzma2_compress(&mut cr, &mut sink),
                Fmt::Xz => lzma_rs::xz_compress(&mut cr, &mut sink),
            });
            o.v = v;
            o.consumed = cr.pos;
            o.reads = cr.calls;
            o.fault_hit = cr.fault_hit;
            fill_sink(&mut o, &sink);
        }
        Case::RawLzma { lc, lp, pb, dict, size, memlimit, ops } => {
            let mut h = match RawH::new_lzma(*lc, *lp, *pb, *dict, *size, *memlimit) {
                Ok(h) => h,
                Err(v) => {
                    o.v = v;
                    return o;
                }
            };
            run_raw(&mut h, ops, &mut o);
        }
        Case::RawLzma2 { ops } => {
            // (Lzma2Decoder::default() for op lists of even length, ::new() otherwise)
            let mut h = if ops.len() % 2 == 0 { RawH::L2(Lzma2Decoder::default()) } else { RawH::new_lzma2() };
            run_raw(&mut h, ops, &mut o);
        }
        Case::RawLzmaHdr { opts, input } => {
            let mut rdr: &[u8] = &input.0;
            let mut out = Vec::new();
            let lib = opts.to_lib();
            let (v, _) = guard(|| -> lzma_rs::error::Result<()> {
                let params = LzmaParams::read_header(&mut rdr, &lib)?;
                let mut d = LzmaDecoder::new(params, opts.memlimit.map(|m| m as usize))?;
                d.decompress(&mut rdr, &mut out)
            });
            o.v = v;
            o.consumed = input.0.len() - rdr.len();
            o.out = Hex(out);
        }
        Case::Stream { opts, sk, ops } => {
            let mut h = StreamH::new(opts, sk);
            for op in ops {
                if h.s.is_none() {
                    break;
                }
                let r = h.apply(op);
                o.v = r.v.clone();
                if let SOp::Write(_) | SOp::WriteAll(_) = op {
                    o.consumed += r.n.unwrap_or(0) as usize;
                }
                o.ops.push(r);
            }
            fill_sink(&mut o, &h.sink);
        }
        Case::Window { circular, dict, memlimit, ops } => {
            let mut h = WinHarness::new(*circular, *dict, *memlimit);
            for op in ops {
                let r = h.apply(op);
                o.v = r.v.clone();
                o.ops.push(r);
                if matches!(op, WOp::Finish) {
                    break;
                }
            }
            fill_sink(&mut o, &h.sink);
        }
    }
    o
}

fn run_raw(h: &mut RawH, ops: &[RawOp], o: &mut Obs) {
    let mut all = Vec::new();
    for op in ops {
        let r = h.apply(op);
        o.v = r.v.clone();
        if let RawOp::Dec(_) = op {
            o.consumed = r.consumed;
            o.out = Hex(r.out.clone());
        }
        o.ops.push(OpObs { v: r.v, n: Some(r.consumed as u64), sink_len: r.out.len(), fault: false });
        all.push(r.out);
    }
}

//! Reference LZMA *symbol* encoder: encodes exactly the symbol program it is given
//! (any lc/lp/pb, all symbol kinds, also invalid references) and interprets the
//! program as LZ77 at the same time, so one pass yields both the byte stream and
//! the expected plaintext.
//!
//! The range encoder normalises eagerly and flushes five bytes: the number of
//! bytes a conforming (eagerly normalising) decoder has consumed after symbol j
//! is `5 + norm_shifts` at that point.
use serde::{Deserialize, Serialize};

#[derive(Clone, Copy, Debug, PartialEq, Eq, Hash, Serialize, Deserialize)]
pub enum Sym {
    /// literal byte
    L(u8),
    /// match: real distance (>= 1), length 2..=273
    M(u32, u32),
    /// short rep (rep0, length 1)
    S,
    /// rep match: index 0..=3, length 2..=273
    R(u8, u32),
    /// end marker
    E,
    /// end marker with a non-minimal match length (2..=273; E is EL(2)): the reserved distance is what ends the stream
    EL(u32),
}

pub fn prog_str(p: &[Sym]) -> String {
    let mut s = String::new();
    let mut i = 0;
    while i < p.len() {
        // run-length compress identical symbols for readability
        let mut j = i;
        while j < p.len() && p[j] == p[i] {
            j += 1;
        }
        let one = match p[i] {
            Sym::L(b) => format!("L{:02x}", b),
            Sym::M(d, l) => format!("M({},{})", d, l),
            Sym::S => "S".to_string(),
            Sym::R(i, l) => format!("R{}({})", i, l),
            Sym::E => "E".to_string(),
            Sym::EL(l) => format!("E(len {})", l),
        };
        if !s.is_empty() {
            s.push(' ');
        }
        if j - i > 1 {
            s.push_str(&format!("{}x{}", one, j - i));
        } else {
            s.push_str(&one);
        }
        i = j;
    }
    s
}

#[derive(Clone)]
pub struct RcEnc {
    pub low: u64,
    pub range: u32,
    pub cache: u8,
    pub cache_size: u64,
    pub out: Vec<u8>,
    /// number of shift_low calls caused by normalisation (not by flush)
    pub norm_shifts: usize,
    /// number of times a carry was propagated through at least one pending 0xFF byte
    pub carries_through_ff: usize,
    /// number of carries at all
    pub carries: usize,
    /// longest run of pending 0xFF bytes a carry was propagated through
    pub max_ff_run_at_carry: u64,
    /// carries that arrived while the new top byte of `low` was itself 0xFF (low >= 0x1_FF00_0000 at a shift)
    pub carry_on_ff_top: usize,
    /// emissions of two and more bytes at once (the cached byte plus its run of pending 0xFF bytes): (offset in `out`, count)
    pub multi_emits: Vec<(usize, usize)>,
}
impl Default for RcEnc {
    fn default() -> Self {
        Self::new()
    }
}
impl RcEnc {
    pub fn new() -> Self {
        RcEnc {
            low: 0,
            range: 0xFFFF_FFFF,
            cache: 0,
            cache_size: 1,
            out: Vec::new(),
            norm_shifts: 0,
            carries_through_ff: 0,
            carries: 0,
            max_ff_run_at_carry: 0,
            carry_on_ff_top: 0,
            multi_emits: Vec::new(),
        }
    }
    fn shift_low(&mut self) {
        if (self.low as u32) < 0xFF00_0000 || (self.low >> 32) != 0 {
            let carry = (self.low >> 32) as u8;
            if carry != 0 {
                self.carries += 1;
                if (self.low as u32) >= 0xFF00_0000 {
                    self.carry_on_ff_top += 1;
                }
                if self.cache_size > 1 {
                    self.carries_through_ff += 1;
                    self.max_ff_run_at_carry = self.max_ff_run_at_carry.max(self.cache_size - 1);
                }
            }
            if self.cache_size > 1 {
                self.multi_emits.push((self.out.len(), self.cache_size as usize));
            }
            let mut c = self.cache;
            loop {
                self.out.push(c.wrapping_add(carry));
                c = 0xFF;
                self.cache_size -= 1;
                if self.cache_size == 0 {
                    break;
                }
            }
            self.cache = ((self.low >> 24) & 0xFF) as u8;
        }
        self.cache_size += 1;
        self.low = (self.low & 0x00FF_FFFF) << 8;
    }
    fn norm(&mut self) {
        while self.range < (1 << 24) {
            self.range <<= 8;
            self.shift_low();
            self.norm_shifts += 1;
        }
    }
    pub fn bit(&mut self, p: &mut u16, b: u32) {
        let bound = (self.range >> 11) * (*p as u32);
        if b == 0 {
            self.range = bound;
            *p += (2048 - *p) >> 5;
        } else {
            self.low += bound as u64;
            self.range -= bound;
            *p -= *p >> 5;
        }
        self.norm();
    }
    pub fn direct(&mut self, v: u32, nbits: u32) {
        for i in (0..nbits).rev() {
            self.range >>= 1;
            if (v >> i) & 1 == 1 {
                self.low += self.range as u64;
            }
            self.norm();
        }
    }
    pub fn flush(&mut self) {
        for _ in 0..5 {
            self.shift_low();
        }
    }
    /// bytes an eagerly normalising decoder has consumed so far
    pub fn decoder_consumed(&self) -> usize {
        5 + self.norm_shifts
    }
}

#[derive(Clone)]
pub struct LenEnc {
    choice: u16,
    choice2: u16,
    low: [[u16; 8]; 16],
    mid: [[u16; 8]; 16],
    high: [u16; 256],
}
impl LenEnc {
    fn new() -> Self {
        LenEnc { choice: 0x400, choice2: 0x400, low: [[0x400; 8]; 16], mid: [[0x400; 8]; 16], high: [0x400; 256] }
    }
    fn enc(&mut self, rc: &mut RcEnc, l: u32, ps: usize) {
        if l < 8 {
            rc.bit(&mut self.choice, 0);
            tree(rc, &mut self.low[ps], 3, l);
        } else if l < 16 {
            rc.bit(&mut self.choice, 1);
            rc.bit(&mut self.choice2, 0);
            tree(rc, &mut self.mid[ps], 3, l - 8);
        } else {
            rc.bit(&mut self.choice, 1);
            rc.bit(&mut self.choice2, 1);
            tree(rc, &mut self.high, 8, l - 16);
        }
    }
}
fn tree(rc: &mut RcEnc, probs: &mut [u16], nbits: u32, v: u32) {
    let mut m = 1usize;
    for i in (0..nbits).rev() {
        let b = (v >> i) & 1;
        rc.bit(&mut probs[m], b);
        m = (m << 1) | b as usize;
    }
}
fn rtree(rc: &mut RcEnc, probs: &mut [u16], off: usize, nbits: u32, v: u32) {
    let mut m = 1usize;
    for i in 0..nbits {
        let b = (v >> i) & 1;
        rc.bit(&mut probs[off + m], b);
        m = (m << 1) | b as usize;
    }
}

pub fn dist_slot(d: u32) -> u32 {
    if d < 4 {
        d
    } else {
        let n = 31 - d.leading_zeros();
        2 * n + ((d >> (n - 1)) & 1)
    }
}

/// Coverage tags collected while encoding (what the program exercised).
#[derive(Clone, Default, Debug)]
pub struct Cover {
    /// (automaton state before symbol, symbol kind 0=lit 1=match 2=shortrep 3..6=rep0..3 7=eos)
    pub state_kind: std::collections::BTreeSet<(u8, u8)>,
    /// (length class 0..3 as used for the distance slot context, distance slot)
    pub len_slot: std::collections::BTreeSet<(u8, u8)>,
    /// number of matched-literal encodings
    pub matched_literals: usize,
}

#[derive(Clone)]
pub struct Model {
    pub lc: u32,
    pub lp: u32,
    pub pb: u32,
    pub state: usize,
    pub rep: [u32; 4], // distance-1
    /// history since the last dictionary reset
    pub win: Vec<u8>,
    /// output delivered before the last dictionary reset
    pub flushed: Vec<u8>,
    /// dictionary size used to judge validity of references
    pub dict: u64,
    pub cover: Cover,
    is_match: [[u16; 16]; 12],
    is_rep: [u16; 12],
    g0: [u16; 12],
    g1: [u16; 12],
    g2: [u16; 12],
    rep0long: [[u16; 16]; 12],
    lit: Vec<u16>,
    slot: [[u16; 64]; 4],
    spec: [u16; 115],
    align: [u16; 16],
    len: LenEnc,
    replen: LenEnc,
    /// WRONG-decoder emulation (used to write inputs that only a defective decoder accepts): a literal in a
    /// matched-literal state is coded as a plain literal when its match byte lies outside the window
    pub wrong_plain_literal_outside_window: bool,
    /// WRONG-decoder emulation: a copy from outside the window yields zero bytes instead of ending the encoding
    pub wrong_zeros_outside_window: bool,
}

impl Model {
    pub fn new(lc: u32, lp: u32, pb: u32) -> Self {
        Model {
            lc,
            lp,
            pb,
            state: 0,
            rep: [0; 4],
            win: Vec::new(),
            flushed: Vec::new(),
            dict: u64::MAX,
            cover: Cover::default(),
            is_match: [[0x400; 16]; 12],
            is_rep: [0x400; 12],
            g0: [0x400; 12],
            g1: [0x400; 12],
            g2: [0x400; 12],
            rep0long: [[0x400; 16]; 12],
            lit: vec![0x400; 0x300 << (lc + lp)],
            slot: [[0x400; 64]; 4],
            spec: [0x400; 115],
            align: [0x400; 16],
            len: LenEnc::new(),
            replen: LenEnc::new(),
            wrong_plain_literal_outside_window: false,
            wrong_zeros_outside_window: false,
        }
    }
    pub fn with_dict(mut self, dict: u64) -> Self {
        self.dict = dict;
        self
    }
    /// LZMA2 state reset (optionally with new properties); history is kept.
    pub fn reset_state(&mut self, lc: u32, lp: u32, pb: u32) {
        let win = std::mem::take(&mut self.win);
        let flushed = std::mem::take(&mut self.flushed);
        let cover = std::mem::take(&mut self.cover);
        let dict = self.dict;
        *self = Model::new(lc, lp, pb);
        self.win = win;
        self.flushed = flushed;
        self.cover = cover;
        self.dict = dict;
    }
    /// LZMA2 dictionary reset.
    pub fn reset_dict(&mut self) {
        let w = std::mem::take(&mut self.win);
        self.flushed.extend_from_slice(&w);
    }
    /// LZMA2 uncompressed chunk body.
    pub fn append_raw(&mut self, b: &[u8]) {
        self.win.extend_from_slice(b);
    }
    pub fn output(&self) -> Vec<u8> {
        let mut o = self.flushed.clone();
        o.extend_from_slice(&self.win);
        o
    }
    pub fn produced(&self) -> usize {
        self.flushed.len() + self.win.len()
    }
    fn ref_ok(&self, dist: u64) -> bool {
        dist >= 1 && dist <= self.win.len() as u64 && dist <= self.dict
    }
    fn copy(&mut self, dist: u32, len: u32) -> bool {
        if !self.ref_ok(dist as u64) {
            if self.wrong_zeros_outside_window {
                for _ in 0..len {
                    self.win.push(0);
                }
                return true;
            }
            return false;
        }
        for _ in 0..len {
            let b = self.win[self.win.len() - dist as usize];
            self.win.push(b);
        }
        true
    }
    /// Would this symbol be a valid reference in the current state?
    pub fn is_valid(&self, s: Sym) -> bool {
        match s {
            Sym::L(_) => self.state < 7 || self.ref_ok(self.rep[0] as u64 + 1),
            Sym::M(d, _) => self.ref_ok(d as u64),
            Sym::S => self.ref_ok(self.rep[0] as u64 + 1),
            Sym::R(i, _) => self.ref_ok(self.rep[i as usize] as u64 + 1),
            Sym::E | Sym::EL(_) => true,
        }
    }
    /// Encode one symbol; returns false if the symbol is an invalid reference
    /// (its bits are still emitted, the window is left unchanged).
    pub fn enc(&mut self, rc: &mut RcEnc, s: Sym) -> bool {
        let pos = self.win.len();
        let ps = pos & ((1usize << self.pb) - 1);
        let kind = match s {
            Sym::L(_) => 0u8,
            Sym::M(..) => 1,
            Sym::S => 2,
            Sym::R(i, _) => 3 + i,
            Sym::E | Sym::EL(_) => 7,
        };
        self.cover.state_kind.insert((self.state as u8, kind));
        match s {
            Sym::L(b) => {
                rc.bit(&mut self.is_match[self.state][ps], 0);
                let prev = if pos == 0 { 0 } else { self.win[pos - 1] } as usize;
                let ls = ((pos & ((1usize << self.lp) - 1)) << self.lc) + (prev >> (8 - self.lc));
                let probs = &mut self.lit[ls * 0x300..(ls + 1) * 0x300];
                let mut m = 1usize;
                let mut valid = true;
                let outside = {
                    let d = self.rep[0] as u64 + 1;
                    !(d <= pos as u64 && d <= self.dict)
                };
                if self.state >= 7 && !(self.wrong_plain_literal_outside_window && outside) {
                    self.cover.matched_literals += 1;
                    let d = self.rep[0] as u64 + 1;
                    let mb = if d <= pos as u64 && d <= self.dict {
                        self.win[pos - d as usize]
                    } else {
                        // (a decoder that fabricates zero bytes for references outside the window reads match byte 0)
                        valid = self.wrong_zeros_outside_window;
                        0
                    } as usize;
                    let mut matched = true;
                    for i in (0..8).rev() {
                        let bit = ((b as usize) >> i) & 1;
                        if matched {
                            let mbit = (mb >> i) & 1;
                            rc.bit(&mut probs[((1 + mbit) << 8) + m], bit as u32);
                            if mbit != bit {
                                matched = false;
                            }
                        } else {
                            rc.bit(&mut probs[m], bit as u32);
                        }
                        m = (m << 1) | bit;
                    }
                } else {
                    for i in (0..8).rev() {
                        let bit = ((b as usize) >> i) & 1;
                        rc.bit(&mut probs[m], bit as u32);
                        m = (m << 1) | bit;
                    }
                }
                if valid {
                    self.win.push(b);
                    self.state = if self.state < 4 {
                        0
                    } else if self.state < 10 {
                        self.state - 3
                    } else {
                        self.state - 6
                    };
                }
                valid
            }
            Sym::M(dist, len) => {
                self.enc_match(rc, ps, dist.wrapping_sub(1), len);
                self.copy(dist, len)
            }
            Sym::E => {
                self.enc_match(rc, ps, 0xFFFF_FFFF, 2);
                true
            }
            Sym::EL(l) => {
                self.enc_match(rc, ps, 0xFFFF_FFFF, l);
                true
            }
            Sym::S => {
                rc.bit(&mut self.is_match[self.state][ps], 1);
                rc.bit(&mut self.is_rep[self.state], 1);
                rc.bit(&mut self.g0[self.state], 0);
                rc.bit(&mut self.rep0long[self.state][ps], 0);
                self.state = if self.state < 7 { 9 } else { 11 };
                let d = self.rep[0].wrapping_add(1);
                if self.rep[0] == u32::MAX {
                    if self.wrong_zeros_outside_window {
                        self.win.push(0);
                        return true;
                    }
                    return false;
                }
                self.copy(d, 1)
            }
            Sym::R(idx, len) => {
                let idx = idx as usize;
                rc.bit(&mut self.is_match[self.state][ps], 1);
                rc.bit(&mut self.is_rep[self.state], 1);
                if idx == 0 {
                    rc.bit(&mut self.g0[self.state], 0);
                    rc.bit(&mut self.rep0long[self.state][ps], 1);
                } else {
                    rc.bit(&mut self.g0[self.state], 1);
                    if idx == 1 {
                        rc.bit(&mut self.g1[self.state], 0);
                    } else {
                        rc.bit(&mut self.g1[self.state], 1);
                        rc.bit(&mut self.g2[self.state], (idx == 3) as u32);
                    }
                    let d = self.rep[idx];
                    for i in (0..idx).rev() {
                        self.rep[i + 1] = self.rep[i];
                    }
                    self.rep[0] = d;
                }
                self.replen.enc(rc, len - 2, ps);
                self.state = if self.state < 7 { 8 } else { 11 };
                if self.rep[0] == u32::MAX {
                    if self.wrong_zeros_outside_window {
                        for _ in 0..len {
                            self.win.push(0);
                        }
                        return true;
                    }
                    return false;
                }
                let d = self.rep[0] + 1;
                self.copy(d, len)
            }
        }
    }
    fn enc_match(&mut self, rc: &mut RcEnc, ps: usize, d: u32, len: u32) {
        rc.bit(&mut self.is_match[self.state][ps], 1);
        rc.bit(&mut self.is_rep[self.state], 0);
        self.len.enc(rc, len - 2, ps);
        let ls = std::cmp::min(len - 2, 3) as usize;
        let slot = dist_slot(d);
        self.cover.len_slot.insert((ls as u8, slot as u8));
        tree(rc, &mut self.slot[ls], 6, slot);
        if slot >= 4 {
            let nd = (slot >> 1) - 1;
            let base = (2 | (slot & 1)) << nd;
            let rem = d - base;
            if slot < 14 {
                rtree(rc, &mut self.spec, (base - slot) as usize, nd, rem);
            } else {
                rc.direct(rem >> 4, nd - 4);
                rtree(rc, &mut self.align, 0, 4, rem & 15);
            }
        }
        self.rep[3] = self.rep[2];
        self.rep[2] = self.rep[1];
        self.rep[1] = self.rep[0];
        self.rep[0] = d;
        self.state = if self.state < 7 { 7 } else { 10 };
    }
}

impl Model {
    /// Probabilities on the path of a new match (dist, len) in the current state: (node, prob of bit 0 /2048, bit).
    pub fn debug_match_path(&self, dist: u32, len: u32) -> Vec<(String, u16, u32)> {
        let mut v = Vec::new();
        let ps = self.win.len() & ((1usize << self.pb) - 1);
        v.push(("is_match".to_string(), self.is_match[self.state][ps], 1));
        v.push(("is_rep".to_string(), self.is_rep[self.state], 0));
        let l = len - 2;
        if l >= 16 {
            v.push(("choice".into(), self.len.choice, 1));
            v.push(("choice2".into(), self.len.choice2, 1));
            let mut m = 1usize;
            for i in (0..8).rev() {
                let b = ((l - 16) >> i) & 1;
                v.push((format!("high[{}]", m), self.len.high[m], b));
                m = (m << 1) | b as usize;
            }
        }
        let d = dist - 1;
        let slot = dist_slot(d);
        let ls = std::cmp::min(l, 3) as usize;
        let mut m = 1usize;
        for i in (0..6).rev() {
            let b = (slot >> i) & 1;
            v.push((format!("slot[{}]", m), self.slot[ls][m], b));
            m = (m << 1) | b as usize;
        }
        if slot >= 14 {
            let nd = (slot >> 1) - 1;
            let base = (2 | (slot & 1)) << nd;
            let rem = d - base;
            let mut m = 1usize;
            for i in 0..4 {
                let b = (rem >> i) & 1;
                v.push((format!("align[{}]", m), self.align[m], b));
                m = (m << 1) | b as usize;
            }
        }
        v
    }
}

/// Result of encoding a whole program.
pub struct Encoded {
    /// raw LZMA payload (range coder bytes incl. 5-byte flush)
    pub payload: Vec<u8>,
    /// expected plaintext (up to, not including, the first invalid symbol)
    pub expect: Vec<u8>,
    /// index of the first symbol that is an invalid reference
    pub bad: Option<usize>,
    /// per symbol: (decoder bytes consumed after it, bytes produced after it)
    pub table: Vec<(usize, usize)>,
    pub cover: Cover,
    pub carries_through_ff: usize,
}

/// Encode a whole program as a raw LZMA payload. Encoding stops after the first
/// invalid symbol (whose bits are emitted).
pub fn encode(lc: u32, lp: u32, pb: u32, dict: u64, prog: &[Sym]) -> Encoded {
    let mut m = Model::new(lc, lp, pb).with_dict(dict);
    encode_with(&mut m, prog)
}

pub fn encode_with(m: &mut Model, prog: &[Sym]) -> Encoded {
    let mut rc = RcEnc::new();
    let mut bad = None;
    let mut table = Vec::with_capacity(prog.len());
    for (i, s) in prog.iter().enumerate() {
        if !m.enc(&mut rc, *s) {
            bad = Some(i);
            table.push((rc.decoder_consumed(), m.produced()));
            break;
        }
        table.push((rc.decoder_consumed(), m.produced()));
    }
    rc.flush();
    Encoded {
        payload: rc.out,
        expect: m.output(),
        bad,
        table,
        cover: m.cover.clone(),
        carries_through_ff: rc.carries_through_ff,
    }
}

pub fn props_byte(lc: u32, lp: u32, pb: u32) -> u8 {
    ((pb * 5 + lp) * 9 + lc) as u8
}

pub fn lzma_header(lc: u32, lp: u32, pb: u32, dict: u32, size: Option<u64>) -> Vec<u8> {
    let mut v = vec![props_byte(lc, lp, pb)];
    v.extend_from_slice(&dict.to_le_bytes());
    v.extend_from_slice(&size.unwrap_or(u64::MAX).to_le_bytes());
    v
}

/// `.lzma` file for a program: 13-byte header + payload.
pub fn lzma_file(lc: u32, lp: u32, pb: u32, dict: u32, size: Option<u64>, payload: &[u8]) -> Vec<u8> {
    let mut v = lzma_header(lc, lp, pb, dict, size);
    v.extend_from_slice(payload);
    v
}

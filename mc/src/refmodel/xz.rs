//! Reference .xz writer (every field overridable, enclosing CRCs always recomputed
//! unless the CRC itself is overridden) and strict parser (xz-file-format 1.0.4).
use super::crc::{crc32, crc64, sha256};
use super::lzma2;
use serde::{Deserialize, Serialize};

pub const MAGIC: [u8; 6] = [0xFD, 0x37, 0x7A, 0x58, 0x5A, 0x00];
pub const FOOTER_MAGIC: [u8; 2] = [0x59, 0x5A];

pub fn mbi(mut v: u64) -> Vec<u8> {
    let mut o = Vec::new();
    loop {
        let b = (v & 0x7F) as u8;
        v >>= 7;
        if v == 0 {
            o.push(b);
            return o;
        }
        o.push(b | 0x80);
    }
}

/// Multibyte integer padded to exactly `n` bytes (non-minimal encoding) — used for field-width extremes.
pub fn mbi_n(v: u64, n: usize) -> Vec<u8> {
    let mut o = Vec::new();
    let mut v = v;
    for i in 0..n {
        let b = (v & 0x7F) as u8;
        v >>= 7;
        o.push(if i + 1 < n { b | 0x80 } else { b });
    }
    o
}

pub fn check_size(id: u8) -> usize {
    match id {
        0 => 0,
        1..=3 => 4,
        4..=6 => 8,
        7..=9 => 16,
        10..=12 => 32,
        _ => 64,
    }
}

pub fn check_value(id: u8, data: &[u8]) -> Vec<u8> {
    match id {
        0 => vec![],
        1 => crc32(data).to_le_bytes().to_vec(),
        4 => crc64(data).to_le_bytes().to_vec(),
        10 => sha256(data).to_vec(),
        // unassigned IDs: arbitrary but deterministic filler of the right size
        _ => {
            let n = check_size(id);
            let c = crc64(data).to_le_bytes();
            (0..n).map(|i| c[i % 8] ^ (i as u8)).collect()
        }
    }
}

#[derive(Clone, Debug, Default, Serialize, Deserialize)]
pub struct Block {
    /// LZMA2 stream bytes (incl. end byte) — the block's compressed data
    pub payload: Vec<u8>,
    /// what the payload decodes to (for size fields and the check)
    pub plain: Vec<u8>,
    pub with_csize: bool,
    pub with_usize: bool,
    /// extra header padding in units of 4 bytes beyond the minimum
    pub extra_pad4: usize,
    // ---- overrides (None = correct value) ----
    pub o_header_size_byte: Option<u8>,
    pub o_flags: Option<u8>,
    pub o_csize: Option<Vec<u8>>,
    pub o_usize: Option<Vec<u8>>,
    /// filter list: (id bytes, props-size bytes, props); None = [LZMA2 with dict props 0x16]
    pub o_filters: Option<Vec<(Vec<u8>, Vec<u8>, Vec<u8>)>>,
    /// header padding bytes (replaces the zero padding, same length expected)
    pub o_header_pad: Option<Vec<u8>>,
    pub o_header_crc: Option<u32>,
    /// block padding bytes
    pub o_block_pad: Option<Vec<u8>>,
    pub o_check: Option<Vec<u8>>,
}

#[derive(Clone, Debug, Default, Serialize, Deserialize)]
pub struct XzFile {
    pub check_id: u8,
    pub blocks: Vec<Block>,
    // ---- overrides ----
    pub o_magic: Option<Vec<u8>>,
    pub o_hdr_flags: Option<[u8; 2]>,
    pub o_hdr_crc: Option<u32>,
    pub o_index_indicator: Option<u8>,
    pub o_index_count: Option<Vec<u8>>,
    /// per record: (unpadded bytes, uncompressed bytes)
    pub o_records: Option<Vec<(Vec<u8>, Vec<u8>)>>,
    pub o_index_pad: Option<Vec<u8>>,
    pub o_index_crc: Option<u32>,
    pub o_footer_crc: Option<u32>,
    pub o_backward: Option<u32>,
    pub o_ftr_flags: Option<[u8; 2]>,
    pub o_ftr_magic: Option<[u8; 2]>,
    pub trailer: Vec<u8>,
}

/// Byte ranges of named fields in a built file (for bit-flip attribution).
pub type Spans = Vec<(String, usize, usize)>;

pub fn build(f: &XzFile) -> (Vec<u8>, Spans) {
    let mut o: Vec<u8> = Vec::new();
    let mut spans: Spans = Vec::new();
    macro_rules! put {
        ($name:expr, $bytes:expr) => {{
            let b: &[u8] = $bytes;
            spans.push(($name.to_string(), o.len(), o.len() + b.len()));
            o.extend_from_slice(b);
        }};
    }
    let magic = f.o_magic.clone().unwrap_or(MAGIC.to_vec());
    put!("header.magic", &magic);
    let flags = f.o_hdr_flags.unwrap_or([0, f.check_id]);
    put!("header.flags", &flags);
    let c = f.o_hdr_crc.unwrap_or(crc32(&flags));
    put!("header.crc", &c.to_le_bytes());
    let mut records: Vec<(u64, u64)> = Vec::new();
    for (bi, b) in f.blocks.iter().enumerate() {
        let start = o.len();
        // header body
        let mut body: Vec<u8> = Vec::new();
        let filters = b.o_filters.clone().unwrap_or(vec![(vec![0x21], vec![1], vec![0x16])]);
        let nf = filters.len().clamp(1, 4) as u8;
        let fl = b.o_flags.unwrap_or((nf - 1) | if b.with_csize { 0x40 } else { 0 } | if b.with_usize { 0x80 } else { 0 });
        body.push(fl);
        if b.with_csize {
            body.extend_from_slice(&b.o_csize.clone().unwrap_or(mbi(b.payload.len() as u64)));
        }
        if b.with_usize {
            body.extend_from_slice(&b.o_usize.clone().unwrap_or(mbi(b.plain.len() as u64)));
        }
        for (id, ps, p) in &filters {
            body.extend_from_slice(id);
            body.extend_from_slice(ps);
            body.extend_from_slice(p);
        }
        // total header = 1 (size byte) + body + pad + 4 (crc), multiple of 4
        let min_total = (1 + body.len() + 4 + 3) / 4 * 4;
        let total = min_total + 4 * b.extra_pad4;
        let padlen = total - 1 - body.len() - 4;
        let pad = b.o_header_pad.clone().unwrap_or(vec![0; padlen]);
        let size_byte = b.o_header_size_byte.unwrap_or((total / 4 - 1) as u8);
        let mut hdr = vec![size_byte];
        hdr.extend_from_slice(&body);
        hdr.extend_from_slice(&pad);
        let crc = b.o_header_crc.unwrap_or(crc32(&hdr));
        put!(format!("block{}.header_size", bi), &hdr[0..1]);
        put!(format!("block{}.header_body", bi), &hdr[1..1 + body.len()]);
        put!(format!("block{}.header_pad", bi), &hdr[1 + body.len()..]);
        put!(format!("block{}.header_crc", bi), &crc.to_le_bytes());
        put!(format!("block{}.payload", bi), &b.payload);
        let unpadded_wo_check = o.len() - start;
        let padn = (4 - unpadded_wo_check % 4) % 4;
        let bpad = b.o_block_pad.clone().unwrap_or(vec![0; padn]);
        put!(format!("block{}.pad", bi), &bpad);
        let chk = b.o_check.clone().unwrap_or(check_value(f.check_id, &b.plain));
        put!(format!("block{}.check", bi), &chk);
        // the *true* unpadded size: header + compressed data + check (no block padding)
        let unpadded = (unpadded_wo_check + check_size(f.check_id)) as u64;
        records.push((unpadded, b.plain.len() as u64));
    }
    // index
    let istart = o.len();
    let mut idx: Vec<u8> = vec![f.o_index_indicator.unwrap_or(0)];
    idx.extend_from_slice(&f.o_index_count.clone().unwrap_or(mbi(records.len() as u64)));
    match &f.o_records {
        Some(rs) => {
            for (a, b) in rs {
                idx.extend_from_slice(a);
                idx.extend_from_slice(b);
            }
        }
        None => {
            for (a, b) in &records {
                idx.extend_from_slice(&mbi(*a));
                idx.extend_from_slice(&mbi(*b));
            }
        }
    }
    let ipad = f.o_index_pad.clone().unwrap_or(vec![0; (4 - idx.len() % 4) % 4]);
    let body_len = idx.len();
    idx.extend_from_slice(&ipad);
    let icrc = f.o_index_crc.unwrap_or(crc32(&idx));
    put!("index.body", &idx[..body_len]);
    put!("index.pad", &idx[body_len..]);
    put!("index.crc", &icrc.to_le_bytes());
    let index_size = o.len() - istart;
    // footer
    let backward = f.o_backward.unwrap_or((index_size / 4).wrapping_sub(1) as u32);
    let fflags = f.o_ftr_flags.unwrap_or([0, f.check_id]);
    let mut fb = backward.to_le_bytes().to_vec();
    fb.extend_from_slice(&fflags);
    let fcrc = f.o_footer_crc.unwrap_or(crc32(&fb));
    put!("footer.crc", &fcrc.to_le_bytes());
    put!("footer.backward", &fb[0..4]);
    put!("footer.flags", &fb[4..6]);
    put!("footer.magic", &f.o_ftr_magic.unwrap_or(FOOTER_MAGIC));
    put!("trailer", &f.trailer);
    (o, spans)
}

/// Which rules the strict parser enforces beyond what C06 lists (kept switchable so the
/// checks never demand more than the property states).
#[derive(Clone, Copy, Debug)]
pub struct Profile {
    /// reject files whose check ID / filters lzma-rs does not support (C18 view) instead of parsing them
    pub supported_subset_only: bool,
}

#[derive(Debug, Clone, PartialEq, Eq)]
pub enum Vx {
    Ok(Vec<u8>),
    /// structurally invalid per the format
    Invalid(String),
    /// well-formed but outside lzma-rs's supported subset
    Unsupported(String),
}

fn rd_mbi(b: &[u8], pos: &mut usize, limit: usize) -> Result<u64, String> {
    let mut r = 0u64;
    for i in 0..9 {
        if *pos >= limit {
            return Err("multibyte integer truncated".into());
        }
        let x = b[*pos];
        *pos += 1;
        r |= ((x & 0x7F) as u64) << (7 * i);
        if x & 0x80 == 0 {
            // (the format asks for minimal encodings; C06 does not list that rule and
            // lzma-rs is lenient, so the reference is lenient too)
            return Ok(r);
        }
    }
    Err("multibyte integer longer than 9 bytes".into())
}

/// Strict single-stream .xz parser.
pub fn strict_parse(b: &[u8]) -> Vx {
    macro_rules! bad {
        ($($a:tt)*) => { return Vx::Invalid(format!($($a)*)) };
    }
    if b.len() < 12 {
        bad!("truncated stream header");
    }
    if b[0..6] != MAGIC {
        bad!("bad header magic");
    }
    if u32::from_le_bytes([b[8], b[9], b[10], b[11]]) != crc32(&b[6..8]) {
        bad!("bad header crc");
    }
    if b[6] != 0 || b[7] & 0xF0 != 0 {
        bad!("reserved stream flag bits set");
    }
    let check_id = b[7];
    let csz = check_size(check_id);
    let mut unsupported: Option<String> = None;
    if ![0u8, 1, 4].contains(&check_id) {
        unsupported = Some(format!("check id {}", check_id));
    }
    let mut pos = 12usize;
    let mut out = Vec::new();
    let mut records: Vec<(u64, u64)> = Vec::new();
    loop {
        if pos >= b.len() {
            bad!("truncated before index");
        }
        let start = pos;
        let sb = b[pos];
        if sb == 0 {
            break;
        }
        let hsize = (sb as usize + 1) * 4;
        if start + hsize > b.len() {
            bad!("block header truncated");
        }
        let h = &b[start..start + hsize];
        if u32::from_le_bytes([h[hsize - 4], h[hsize - 3], h[hsize - 2], h[hsize - 1]]) != crc32(&h[..hsize - 4]) {
            bad!("bad block header crc");
        }
        let lim = hsize - 4;
        let mut p = 1usize;
        let fl = h[p];
        p += 1;
        if fl & 0x3C != 0 {
            bad!("reserved block flag bits set");
        }
        let nf = (fl & 3) + 1;
        let mut dc: Option<u64> = None;
        let mut du: Option<u64> = None;
        if fl & 0x40 != 0 {
            match rd_mbi(h, &mut p, lim) {
                Ok(v) => dc = Some(v),
                Err(e) => bad!("compressed size: {}", e),
            }
        }
        if fl & 0x80 != 0 {
            match rd_mbi(h, &mut p, lim) {
                Ok(v) => du = Some(v),
                Err(e) => bad!("uncompressed size: {}", e),
            }
        }
        let mut filters = Vec::new();
        for _ in 0..nf {
            let id = match rd_mbi(h, &mut p, lim) {
                Ok(v) => v,
                Err(e) => bad!("filter id: {}", e),
            };
            let ps = match rd_mbi(h, &mut p, lim) {
                Ok(v) => v,
                Err(e) => bad!("filter props size: {}", e),
            };
            if p as u64 + ps > lim as u64 {
                bad!("filter properties exceed header");
            }
            filters.push((id, h[p..p + ps as usize].to_vec()));
            p += ps as usize;
        }
        if h[p..lim].iter().any(|x| *x != 0) {
            bad!("non-zero block header padding");
        }
        if filters.len() != 1 || filters[0].0 != 0x21 {
            // outside the supported subset; we cannot decode the payload generally
            return Vx::Unsupported(format!("filter chain {:?}", filters.iter().map(|f| f.0).collect::<Vec<_>>()));
        }
        if filters[0].1.len() != 1 {
            bad!("bad LZMA2 filter properties");
        }
        pos = start + hsize;
        let (plain, used) = match lzma2::strict_decode(&b[pos..]) {
            lzma2::V2::Ok(p, n) => (p, n),
            lzma2::V2::Invalid(e) => bad!("lzma2: {}", e),
        };
        if let Some(c) = dc {
            if c != used as u64 {
                bad!("declared compressed size {} != {}", c, used);
            }
        }
        if let Some(u) = du {
            if u != plain.len() as u64 {
                bad!("declared uncompressed size {} != {}", u, plain.len());
            }
        }
        pos += used;
        let unpadded = pos - start + csz;
        while (pos - start) % 4 != 0 {
            if pos >= b.len() {
                bad!("truncated block padding");
            }
            if b[pos] != 0 {
                bad!("non-zero block padding");
            }
            pos += 1;
        }
        if pos + csz > b.len() {
            bad!("truncated check");
        }
        if unsupported.is_none() && b[pos..pos + csz] != check_value(check_id, &plain)[..] {
            bad!("block check mismatch");
        }
        if check_id == 10 && b[pos..pos + csz] != check_value(check_id, &plain)[..] {
            bad!("sha256 mismatch");
        }
        pos += csz;
        records.push((unpadded as u64, plain.len() as u64));
        out.extend_from_slice(&plain);
    }
    // index
    let istart = pos;
    pos += 1;
    let n = match rd_mbi(b, &mut pos, b.len()) {
        Ok(v) => v,
        Err(e) => bad!("index count: {}", e),
    };
    if n != records.len() as u64 {
        bad!("index record count {} != {}", n, records.len());
    }
    for (i, r) in records.iter().enumerate() {
        let a = match rd_mbi(b, &mut pos, b.len()) {
            Ok(v) => v,
            Err(e) => bad!("index record: {}", e),
        };
        let u = match rd_mbi(b, &mut pos, b.len()) {
            Ok(v) => v,
            Err(e) => bad!("index record: {}", e),
        };
        if a != r.0 {
            bad!("index record {} unpadded size {} != {}", i, a, r.0);
        }
        if u != r.1 {
            bad!("index record {} uncompressed size {} != {}", i, u, r.1);
        }
    }
    while (pos - istart) % 4 != 0 {
        if pos >= b.len() {
            bad!("truncated index padding");
        }
        if b[pos] != 0 {
            bad!("non-zero index padding");
        }
        pos += 1;
    }
    if pos + 4 > b.len() {
        bad!("truncated index crc");
    }
    if u32::from_le_bytes([b[pos], b[pos + 1], b[pos + 2], b[pos + 3]]) != crc32(&b[istart..pos]) {
        bad!("bad index crc");
    }
    pos += 4;
    let index_size = pos - istart;
    if pos + 12 > b.len() {
        bad!("truncated footer");
    }
    let f = &b[pos..pos + 12];
    if u32::from_le_bytes([f[0], f[1], f[2], f[3]]) != crc32(&f[4..10]) {
        bad!("bad footer crc");
    }
    let backward = u32::from_le_bytes([f[4], f[5], f[6], f[7]]) as u64;
    if (backward + 1) * 4 != index_size as u64 {
        bad!("backward size {} does not match index size {}", backward, index_size);
    }
    if f[8..10] != b[6..8] {
        bad!("footer flags differ from header flags");
    }
    if f[10..12] != FOOTER_MAGIC {
        bad!("bad footer magic");
    }
    pos += 12;
    if pos != b.len() {
        if b[pos..].iter().all(|x| *x == 0) && (b.len() - pos) % 4 == 0 {
            return Vx::Unsupported("stream padding".into());
        }
        // could be a second stream
        if b.len() - pos >= 12 && b[pos..pos + 6] == MAGIC {
            return Vx::Unsupported("concatenated stream".into());
        }
        bad!("trailing bytes after footer");
    }
    if let Some(u) = unsupported {
        return Vx::Unsupported(u);
    }
    Vx::Ok(out)
}

pub mod bind;
pub mod c01;
pub mod c02;
pub mod c03;
pub mod c04;
pub mod c06;
pub mod c07;
pub mod c12;
pub mod c13;
pub mod c14;
pub mod c18;
pub mod c05;
pub mod c08;
pub mod c09;
pub mod c10;
pub mod c11;
pub mod c15;
pub mod c16;
pub mod c17;
pub mod corpus;
pub mod stream_graph;
pub mod window;

use crate::cases::run_case;
use crate::common::{ReplayFile, Tier};

pub fn run(id: &str, tier: Tier) -> Option<i32> {
    Some(match id {
        "C01" => c01::run(tier),
        "C02" => c02::run(tier),
        "C03" => c03::run(tier),
        "C04" => c04::run(tier),
        "C06" => c06::run(tier),
        "C07" => c07::run(tier),
        "C12" => c12::run(tier),
        "C13" => c13::run(tier),
        "C14" => c14::run(tier),
        "C18" => c18::run(tier),
        "C05" => c05::run(tier),
        "C08" => c08::run(tier),
        "C09" => c09::run(tier),
        "C10" => c10::run(tier),
        "C11" => c11::run(tier),
        "C15" => c15::run(tier),
        "C16" => c16::run(tier),
        "C17" => c17::run(tier),
        _ => return None,
    })
}

/// Re-run a replay artefact without any explorer and print the observation.
pub fn replay(path: &str) -> i32 {
    let s = match std::fs::read_to_string(path) {
        Ok(s) => s,
        Err(e) => {
            eprintln!("cannot read {}: {}", path, e);
            return 2;
        }
    };
    let rf: ReplayFile = match serde_json::from_str(&s) {
        Ok(r) => r,
        Err(e) => {
            eprintln!("cannot parse {}: {}", path, e);
            return 2;
        }
    };
    let o = run_case(&rf.case);
    println!("property: {}", rf.property);
    println!("expected: {}", rf.expected);
    println!("recorded: {}", rf.observed);
    println!("observed now: {}", o.brief());
    0
}

//! C17 — malformed LZMA2 framing is rejected (E5: every framing field x boundary-violating value at every chunk).
use super::c02::{chunk_kinds, obs_of};
use crate::cases::{RawH, RawOp, dec_plain, Case, Fmt, Hex, Opts, Rd, Sk};
use crate::common::{brief_bytes, Ctx, Tier};
use crate::explore::par_for;
use crate::refmodel::enc::Sym;
use crate::refmodel::lzma2::{self, chunks_str, Chunk, V2};
use crate::refmodel::xz::{self, XzFile};
use serde_json::json;
use std::sync::atomic::Ordering;
use std::time::Instant;

fn bases(seed: u64, tier: Tier) -> Vec<Vec<Chunk>> {
    let mut v: Vec<Vec<Chunk>> = Vec::new();
    let c3 = |props, prog: Vec<Sym>| Chunk::C { class: 3, props, prog };
    // heavily trained probabilities: symbols that cost no input
    v.push(vec![c3((3, 0, 2), vec![Sym::L(0x61); 300])]);
    v.push(vec![c3((0, 0, 0), vec![Sym::L(0); 300])]);
    v.push(vec![c3((3, 0, 2), {
        let mut p = vec![Sym::L(0x41)];
        p.extend(std::iter::repeat(Sym::R(0, 2)).take(200));
        p
    })]);
    v.push(vec![c3((3, 0, 2), {
        let mut p = vec![Sym::L(0x41), Sym::M(1, 20)];
        p.extend(std::iter::repeat(Sym::S).take(150));
        p
    })]);
    v.push(vec![
        c3((3, 0, 2), vec![Sym::L(0x61); 300]),
        Chunk::C { class: 0, props: (0, 0, 0), prog: vec![Sym::L(0x61); 40] },
        Chunk::U { reset: false, data: b"tail".to_vec() },
    ]);
    v.push(vec![
        Chunk::U { reset: true, data: b"abcdefgh".to_vec() },
        Chunk::C { class: 2, props: (1, 3, 4), prog: vec![Sym::M(8, 5), Sym::L(1), Sym::S, Sym::R(0, 3)] },
        Chunk::C { class: 0, props: (0, 0, 0), prog: vec![Sym::S, Sym::L(7), Sym::R(0, 2), Sym::M(3, 9)] },
        Chunk::U { reset: false, data: b"xyz".to_vec() },
        Chunk::C { class: 1, props: (0, 0, 0), prog: vec![Sym::M(3, 4), Sym::L(2)] },
        Chunk::C { class: 3, props: (0, 0, 0), prog: vec![Sym::L(5), Sym::M(1, 20)] },
    ]);
    v.push(vec![Chunk::U { reset: true, data: vec![0x55] }]);
    // a compressed chunk that ends with a match, followed by compressed chunks of every class that keeps the dictionary
    for class in 0..3u8 {
        v.push(vec![c3((3, 0, 2), vec![Sym::L(0x61), Sym::L(0x62), Sym::L(0x63), Sym::M(3, 8)]), Chunk::C { class, props: (3, 0, 2), prog: vec![Sym::L(0x64), Sym::M(2, 4), Sym::L(0x65)] }]);
    }
    // chunks producing exactly 65536 and 131072 bytes (16-bit size field 0xFFFF, control-byte size bits 0 / 1)
    for total in [65536usize, 131072] {
        let mut p = vec![Sym::L(0x37), Sym::L(0x38), Sym::L(0x39)];
        let mut produced = 3usize;
        while produced + 273 <= total {
            p.push(Sym::M(3, 273));
            produced += 273;
        }
        while produced < total {
            let l = (total - produced).min(273);
            if l >= 2 {
                p.push(Sym::M(3, l as u32));
                produced += l;
            } else {
                p.push(Sym::L(0x3A));
                produced += 1;
            }
        }
        v.push(vec![c3((3, 0, 2), p.clone())]);
        v.push(vec![Chunk::U { reset: true, data: b"ab".to_vec() }, Chunk::C { class: 2, props: (3, 0, 2), prog: p }]);
    }
    // a compressed chunk that resets the dictionary in mid-stream, after a few bytes of earlier output
    v.push(vec![Chunk::U { reset: true, data: vec![0x55] }, c3((3, 0, 2), (0..30u32).map(|i| Sym::L((i * 37 + 1) as u8)).chain([Sym::M(7, 9)]).collect())]);
    v.push(vec![Chunk::U { reset: true, data: b"abcde".to_vec() }, c3((0, 0, 0), (0..30u32).map(|i| Sym::L((i * 37 + 1) as u8)).chain([Sym::M(7, 9)]).collect()), Chunk::U { reset: false, data: b"xy".to_vec() }]);
    v.push(vec![c3((3, 0, 2), vec![Sym::L(1), Sym::L(2), Sym::L(3), Sym::L(4)]), c3((1, 1, 1), (0..40u32).map(|i| Sym::L((i * 11 + 3) as u8)).collect())]);
    v.push(vec![Chunk::U { reset: true, data: (0..200u8).collect() }, Chunk::U { reset: false, data: vec![9; 3] }]);
    v.push(vec![c3((2, 2, 2), (0..60u32).map(|i| Sym::L(((i * 73 + 5) & 0xFF) as u8)).collect()), Chunk::C { class: 2, props: (4, 0, 0), prog: vec![Sym::M(60, 30), Sym::L(3), Sym::M(7, 2)] }]);
    // chunks whose control byte has all size bits set (0x9F / 0xBF / 0xDF / 0xFF): only for these is a reserved value like
    // 0x7F "self-consistent" if a decoder forgets the top bit
    {
        let mut big = vec![Sym::L(0x55)];
        big.extend(std::iter::repeat(Sym::M(1, 273)).take(7681));
        big.push(Sym::M(1, 238));
        v.push(vec![c3((3, 0, 2), big.clone())]);
        for class in 0..3u8 {
            v.push(vec![c3((3, 0, 2), vec![Sym::L(0x41), Sym::L(0x42)]), Chunk::C { class, props: (3, 0, 2), prog: big.clone() }]);
        }
    }
    // chunks that decode entirely from the five range-coder start bytes (one or two short reps with fresh probabilities)
    for n in 1..=2usize {
        v.push(vec![Chunk::U { reset: true, data: vec![0x61] }, Chunk::C { class: 2, props: (0, 0, 0), prog: vec![Sym::S; n] }]);
        v.push(vec![Chunk::U { reset: true, data: vec![0x61] }, Chunk::C { class: 2, props: (0, 0, 0), prog: vec![Sym::S; n] }, Chunk::U { reset: false, data: vec![0x62] }]);
        v.push(vec![c3((0, 0, 0), vec![Sym::L(0x61)]), Chunk::C { class: 1, props: (0, 0, 0), prog: vec![Sym::S; n] }]);
        v.push(vec![c3((0, 0, 0), vec![Sym::L(0x61)]), Chunk::C { class: 1, props: (0, 0, 0), prog: vec![Sym::S; n] }, Chunk::U { reset: false, data: vec![0x62] }]);
    }
    // a slice of the C02 space: all well-formed 2-chunk sequences over the reduced kinds
    let kinds = chunk_kinds(seed, true);
    let step = tier.pick(2usize, 1usize);
    let mut k = 0usize;
    for a in 0..kinds.len() {
        for b in 0..kinds.len() {
            k += 1;
            if k % step != 0 {
                continue;
            }
            let cs = vec![kinds[a].clone(), kinds[b].clone()];
            if lzma2::write(&cs).ill.is_none() {
                v.push(cs);
            }
        }
    }
    if tier == Tier::Thorough {
        // every well-formed 2-chunk sequence over the full kind list (4 property sets, 9 programs)
        let full = chunk_kinds(seed, false);
        for a in 0..full.len() {
            for b in 0..full.len() {
                let cs = vec![full[a].clone(), full[b].clone()];
                if lzma2::write(&cs).ill.is_none() && !v.contains(&cs) {
                    v.push(cs);
                }
            }
        }
        // every well-formed 3-chunk sequence over the reduced kinds
        for a in 0..kinds.len() {
            for b in 0..kinds.len() {
                for c in 0..kinds.len() {
                    let cs = vec![kinds[a].clone(), kinds[b].clone(), kinds[c].clone()];
                    if lzma2::write(&cs).ill.is_none() {
                        v.push(cs);
                    }
                }
            }
        }
    }
    v
}

pub fn run(tier: Tier) -> i32 {
    let ctx = Ctx::new("C17", "exploration", tier);
    ctx.set_rule("E5: for each well-formed base chunk sequence (incl. chunks with heavily trained probabilities where a symbol costs no input) and each chunk position, the complete mutation domains: control byte := every value 0x03..0x7F; property byte := every value 225..255 and every value < 225 with lc+lp > 4; declared compressed size := true-k (k=1..5) and true+k (k=1..3); declared uncompressed size := true+-k (k=1..3), true +- 65536 and true +- (bytes produced by the earlier chunks); uncompressed chunk body shortened by every amount; truncation at every byte. A mutant is submitted only if the strict reference LZMA2 decoder (liblzma's rules) calls it invalid for a reason C17 lists; lzma2_decompress must return Err. distinct_nontrivial = submitted mutants.");
    ctx.assume("strict reference LZMA2 decoder bound to liblzma on well-formed streams by `lzmc bind`; xz_decompress shares the LZMA2 code path and is covered on the same framing through C02/C06");
    let bs = bases(ctx.seed, tier);
    let t0 = Instant::now();
    let kinds_hit = std::sync::Mutex::new(std::collections::BTreeMap::<String, u64>::new());
    par_for(bs.len() as u64, |bi| {
        let cs = &bs[bi as usize];
        let w = lzma2::write(cs);
        if let Some(r) = &w.ill {
            ctx.machinery_error(&format!("C17 base sequence ill-formed: {} ({})", chunks_str(cs), r));
        }
        // the base itself must be accepted
        match lzma2::strict_decode(&w.bytes) {
            V2::Ok(o, n) if o == w.expect && n == w.bytes.len() => {}
            other => ctx.machinery_error(&format!("strict reference decoder rejects a well-formed base [{}]: {:?}", chunks_str(cs), other)),
        }
        let mut mutants: Vec<(String, Vec<u8>)> = Vec::new();
        for (ci, l) in w.layout.iter().enumerate() {
            for cb in 0x03..=0x7Fu8 {
                if w.expect.len() > (1 << 20) && cb & 0x1F != 0x1F && cb % 16 != 0 {
                    continue;
                }
                let mut m = w.bytes.clone();
                m[l.control_off] = cb;
                mutants.push((format!("chunk {} control byte := {:#04x}", ci, cb), m));
            }
            if let Some(po) = l.props_off {
                for pbv in 0..=255u8 {
                    let lc = pbv as u32 % 9;
                    let lp = (pbv as u32 / 9) % 5;
                    if pbv >= 225 || lc + lp > 4 {
                        let mut m = w.bytes.clone();
                        m[po] = pbv;
                        mutants.push((format!("chunk {} property byte := {}", ci, pbv), m));
                    }
                }
            }
            if let Some(pk) = l.packed_off {
                let t = l.body_len as i64;
                // only a declared size SMALLER than what the payload needs is a listed violation (a larger one is
                // malformed for liblzma too, but C17 does not list it, so it is not submitted)
                for d in [-5i64, -4, -3, -2, -1] {
                    let nv = t + d;
                    if nv < 1 || nv > 65536 {
                        continue;
                    }
                    let mut m = w.bytes.clone();
                    m[pk] = ((nv - 1) >> 8) as u8;
                    m[pk + 1] = (nv - 1) as u8;
                    mutants.push((format!("chunk {} declared compressed size {} := {}", ci, t, nv), m));
                }
            }
            {
                let t = l.unpacked as i64;
                // +-k, and +- the number of bytes the earlier chunks produced (what a decoder that mixes up "bytes of
                // this chunk" and "bytes in the dictionary" would be off by)
                let before: i64 = w.layout[..ci].iter().map(|x| x.unpacked as i64).sum();
                let mut ds = vec![-3i64, -2, -1, 1, 2, 3, -65536, 65536];
                if before > 3 {
                    ds.push(-before);
                    ds.push(before);
                }
                for d in ds {
                    let nv = t + d;
                    let max = if l.compressed { 1 << 21 } else { 65536 };
                    if nv < 1 || nv > max {
                        continue;
                    }
                    let mut m = w.bytes.clone();
                    if l.compressed {
                        m[l.control_off] = (m[l.control_off] & 0xE0) | (((nv - 1) >> 16) & 0x1F) as u8;
                    }
                    m[l.unpacked_off] = ((nv - 1) >> 8) as u8;
                    m[l.unpacked_off + 1] = (nv - 1) as u8;
                    mutants.push((format!("chunk {} declared uncompressed size {} := {}", ci, t, nv), m));
                }
            }
            if !l.compressed {
                for cut in 1..=l.body_len.min(tier.pick(6, 40)) {
                    let mut m = w.bytes[..l.body_off + l.body_len - cut].to_vec();
                    m.extend_from_slice(&w.bytes[l.body_off + l.body_len..]);
                    mutants.push((format!("chunk {} uncompressed body shortened by {}", ci, cut), m));
                }
            }
        }
        // two coordinated size fields: a compressed chunk declares d bytes fewer than it produces and the next compressed
        // chunk (same dictionary) declares d bytes more - the totals agree, each chunk is wrong
        for ci in 0..w.layout.len().saturating_sub(1) {
            let (la, lb) = (&w.layout[ci], &w.layout[ci + 1]);
            if !(la.compressed && lb.compressed) || w.bytes[lb.control_off] >= 0xE0 {
                continue;
            }
            for d in 1..=3i64 {
                let (na, nb) = (la.unpacked as i64 - d, lb.unpacked as i64 + d);
                if na < 1 || nb > (1 << 21) {
                    continue;
                }
                let mut m = w.bytes.clone();
                for (l, nv) in [(la, na), (lb, nb)] {
                    m[l.control_off] = (m[l.control_off] & 0xE0) | (((nv - 1) >> 16) & 0x1F) as u8;
                    m[l.unpacked_off] = ((nv - 1) >> 8) as u8;
                    m[l.unpacked_off + 1] = (nv - 1) as u8;
                }
                mutants.push((format!("chunk {} declared uncompressed size {} := {} and chunk {} {} := {}", ci, la.unpacked, na, ci + 1, lb.unpacked, nb), m));
            }
        }
        for cut in 0..w.bytes.len() {
            mutants.push((format!("truncated to {} of {} bytes", cut, w.bytes.len()), w.bytes[..cut].to_vec()));
        }
        // a chunk whose payload ends with an end marker before the declared uncompressed size is reached
        // (produces fewer bytes than declared; the payload itself is complete and ends with code == 0)
        for ci in 0..cs.len() {
            if let Chunk::C { class, props, prog } = &cs[ci] {
                if prog.len() > 400 {
                    continue;
                }
                let mut cs2 = cs.clone();
                let mut p2 = prog.clone();
                p2.push(Sym::E);
                cs2[ci] = Chunk::C { class: *class, props: *props, prog: p2 };
                let w2 = lzma2::write(&cs2);
                let l = &w2.layout[ci];
                for extra in [1usize, 2, 30] {
                    let nv = l.unpacked + extra - 1;
                    let mut m = w2.bytes.clone();
                    m[l.control_off] = (m[l.control_off] & 0xE0) | ((nv >> 16) & 0x1F) as u8;
                    m[l.unpacked_off] = (nv >> 8) as u8;
                    m[l.unpacked_off + 1] = nv as u8;
                    mutants.push((format!("chunk {} ends with an end marker after {} bytes but declares {}", ci, l.unpacked, l.unpacked + extra), m));
                }
            }
        }
        // illegal properties with a payload that is CONSISTENT with them (re-encoded by the reference encoder under
        // the illegal lc/lp), so that only the lc+lp rule itself can object - a decoder that lost the rule accepts these
        for ci in 0..cs.len() {
            if let Chunk::C { class, props, prog } = &cs[ci] {
                if *class < 2 {
                    continue;
                }
                for lc in 0..=8u32 {
                    for lp in 0..=4u32 {
                        if lc + lp <= 4 {
                            continue;
                        }
                        for pb in [props.2, (props.2 + 1) % 5] {
                            let mut cs2 = cs.clone();
                            cs2[ci] = Chunk::C { class: *class, props: (lc, lp, pb), prog: prog.clone() };
                            let w2 = lzma2::write(&cs2);
                            mutants.push((format!("chunk {} re-encoded under illegal properties lc={} lp={} pb={}", ci, lc, lp, pb), w2.bytes));
                        }
                    }
                }
            }
        }
        for (what, m) in mutants {
            ctx.eval(1);
            let reason = match lzma2::strict_decode(&m) {
                V2::Ok(..) => {
                    ctx.skipped.fetch_add(1, Ordering::Relaxed);
                    continue; // still a valid stream (e.g. 300 zero literals re-declared as 301)
                }
                V2::Invalid(r) => r,
            };
            // only the violations C17 lists
            let listed = ["control byte", "props byte", "lc+lp", "needs more input", "chunk payload ends at", "range coder not finished", "produces more bytes", "shorter than declared", "ends before the end control", "truncated", "distance", "matched literal", "end marker inside", "end marker not allowed"];
            if !listed.iter().any(|k| reason.contains(k)) {
                ctx.skipped.fetch_add(1, Ordering::Relaxed);
                continue;
            }
            ctx.nontriv(1);
            {
                let key = listed.iter().find(|k| reason.contains(*k)).unwrap().to_string();
                *kinds_hit.lock().unwrap().entry(key).or_default() += 1;
            }
            let (v, out, consumed) = dec_plain(Fmt::Lzma2, &Opts::default(), &m);
            ctx.traces.fetch_add(1, Ordering::Relaxed);
            if !v.is_err() {
                let case = Case::Dec { fmt: Fmt::Lzma2, opts: Opts::default(), input: Hex(m.clone()), rd: Rd::default(), sk: Sk::default() };
                ctx.violation(&case, &format!("base [{}], {}: malformed ({}) => Err", chunks_str(cs), what, reason), &obs_of(v, out, consumed), Some(&format!("C17:{}", listed.iter().find(|k| reason.contains(*k)).unwrap())));
                continue;
            }
            // the refusal must not depend on how the source hands its bytes over: a size field that disagrees with the payload
            // read through a BufReader of every capacity (a decoder that measures the consumed input from what it can see in
            // the reader's buffer is right for slices and wrong when the over-read crosses a refill), bytewise, and cut in half
            if what.contains("declared compressed size") || what.contains("declared uncompressed size") || m.len() <= 40 {
                let caps: Vec<usize> = if m.len() <= 320 { (1..=m.len() + 1).collect() } else { vec![1, 2, 3, 7, 64, 4096] };
                let mut rds: Vec<Rd> = caps.iter().map(|&c| Rd { bufreader: c, ..Rd::default() }).collect();
                rds.push(Rd { period: 1, ..Rd::default() });
                rds.push(Rd { cuts: vec![m.len() / 2], ..Rd::default() });
                let mut bad = false;
                for rd in rds {
                    let case = Case::Dec { fmt: Fmt::Lzma2, opts: Opts::default(), input: Hex(m.clone()), rd: rd.clone(), sk: Sk::default() };
                    let o = crate::cases::run_case(&case);
                    ctx.eval(1);
                    ctx.traces.fetch_add(1, Ordering::Relaxed);
                    if !o.v.is_err() {
                        ctx.violation(&case, &format!("base [{}], {}: malformed ({}) => Err also when read through {:?}", chunks_str(cs), what, reason, rd), &o, Some(&format!("C17:{}", listed.iter().find(|k| reason.contains(*k)).unwrap())));
                        bad = true;
                        break;
                    }
                }
                if bad {
                    continue;
                }
            }
            // ... nor on what the decoder object has seen before: the raw decoder decodes the valid base, is reset, and is given
            // the malformed stream twice (with a reset in between) - a decoder that caches anything about properties or framing
            // across reset() must still refuse it both times
            if what.contains("property byte") || what.contains("control byte") || what.contains("illegal properties") {
                let ops = vec![RawOp::Dec(Hex(w.bytes.clone())), RawOp::Reset, RawOp::Dec(Hex(m.clone())), RawOp::Reset, RawOp::Dec(Hex(m.clone()))];
                let mut h = RawH::new_lzma2();
                let mut bad = false;
                for (k, op) in ops.iter().enumerate() {
                    let r = h.apply(op);
                    ctx.eval(1);
                    if (k == 2 || k == 4) && !r.v.is_err() {
                        let case = Case::RawLzma2 { ops: ops[..=k].to_vec() };
                        ctx.violation(&case, &format!("base [{}], {}: malformed ({}) => Err from a raw Lzma2Decoder that decoded the valid base before and was reset (attempt {})", chunks_str(cs), what, reason, k / 2), &obs_of(r.v, r.out, r.consumed), Some(&format!("C17:{}", listed.iter().find(|k| reason.contains(*k)).unwrap())));
                        bad = true;
                        break;
                    }
                }
                if bad {
                    continue;
                }
            }
            // the same malformed stream as the SECOND stage of an .xz block with two chained LZMA2 filters (the first stage
            // stores it): lzma-rs decodes such chains; however many bytes the block claims to hold (every count is tried,
            // no check field), the malformed stage must surface as an error. Small streams only.
            if !m.is_empty() && m.len() <= 48 && w.expect.len() <= 40 {
                let outer = lzma2::write(&[Chunk::U { reset: true, data: m.clone() }]).bytes;
                for p in 0..=w.expect.len() + 2 {
                    let f = XzFile { check_id: 0, blocks: vec![xz::Block { payload: outer.clone(), plain: vec![0u8; p], o_filters: Some(vec![(xz::mbi(0x21), xz::mbi(1), vec![0x16u8]), (xz::mbi(0x21), xz::mbi(1), vec![0x16u8])]), ..Default::default() }], ..Default::default() };
                    let (bytes, _) = xz::build(&f);
                    let (v, out, consumed) = dec_plain(Fmt::Xz, &Opts::default(), &bytes);
                    ctx.eval(1);
                    if !v.is_err() {
                        let case = Case::Dec { fmt: Fmt::Xz, opts: Opts::default(), input: Hex(bytes), rd: Rd::default(), sk: Sk::default() };
                        ctx.violation(&case, &format!("base [{}], {}: malformed ({}); as the second of two chained LZMA2 filters of an .xz block that claims {} bytes => Err", chunks_str(cs), what, reason, p), &obs_of(v, out, consumed), None);
                        break;
                    }
                }
            }
        }
        if bi % 9 == 0 {
            ctx.sample(json!({"base": chunks_str(cs), "stream": brief_bytes(&w.bytes)}));
        }
    });
    // ---- a chunk whose payload is exactly 65536 bytes longer than its 16-bit compressed-size field says (a check that
    // compares the consumed length in 16 bits cannot see it); no valid base has such a chunk, so it is built directly
    {
        let mut lits = 62_000usize;
        let gen = |n: usize| -> Vec<Sym> { (0..n as u32).map(|i| Sym::L((i.wrapping_mul(2654435761) >> 13) as u8)).collect() };
        let mut e = crate::refmodel::enc::encode(0, 0, 0, u64::MAX, &gen(lits));
        while e.payload.len() < 65536 + 40 && lits < 200_000 {
            lits += 2000;
            e = crate::refmodel::enc::encode(0, 0, 0, u64::MAX, &gen(lits));
        }
        if e.payload.len() > 65536 + 4 {
            let declared = e.payload.len() - 65536;
            let un = e.expect.len() - 1;
            let mut m: Vec<u8> = vec![0xE0 | ((un >> 16) & 0x1F) as u8, (un >> 8) as u8, un as u8, ((declared - 1) >> 8) as u8, (declared - 1) as u8, 0x00];
            m.extend_from_slice(&e.payload);
            m.push(0x00);
            let (v, out, consumed) = dec_plain(Fmt::Lzma2, &Opts::default(), &m);
            ctx.eval(1);
            ctx.nontriv(1);
            if !v.is_err() {
                let case = Case::Dec { fmt: Fmt::Lzma2, opts: Opts::default(), input: Hex(m), rd: Rd::default(), sk: Sk::default() };
                ctx.violation(&case, &format!("one chunk declaring {} compressed bytes whose payload needs {} (exactly 65536 more) for its {} output bytes: malformed (payload needs more input than its declared compressed size) => Err", declared, e.payload.len(), e.expect.len()), &obs_of(v, out, consumed), None);
            }
        }
    }
    ctx.set_extra("submitted_by_reference_reason", json!(*kinds_hit.lock().unwrap()));
    ctx.scope_done(&format!("mutants-of-{}-bases", bs.len()), ctx.evaluations.load(Ordering::Relaxed), t0, "complete mutation domains at every chunk position");
    ctx.finish()
}

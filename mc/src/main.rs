//! lzmc — bounded-exhaustive model checking harness for gendx/lzma-rs (see /verif/DESIGN.md).
mod cases;
mod common;
mod explore;
mod props;
mod refmodel;

use common::Tier;

#[global_allocator]
static ALLOC: common::CountingAlloc = common::CountingAlloc;

fn usage() -> ! {
    eprintln!("usage: lzmc <C01..C18> quick|thorough | lzmc replay <file> | lzmc bind");
    std::process::exit(2)
}

fn main() {
    // keep panic output of the code under test out of the logs (panics are caught and judged)
    std::panic::set_hook(Box::new(|info| {
        if !cases::IN_GUARD.with(|g| g.get()) {
            eprintln!("machinery error: harness panic: {}", info);
        }
    }));
    let args: Vec<String> = std::env::args().collect();
    if args.len() < 2 {
        usage();
    }
    match args[1].as_str() {
        "replay" => {
            if args.len() < 3 {
                usage();
            }
            std::process::exit(props::replay(&args[2]));
        }
        "bind" => {
            common::start_watchdog();
            std::process::exit(props::bind::run());
        }
        id => {
            let tier = match args.get(2).map(|s| s.as_str()) {
                Some("quick") | None => Tier::Quick,
                Some("thorough") => Tier::Thorough,
                _ => usage(),
            };
            let threads = std::env::var("VERIF_THREADS").ok().and_then(|s| s.parse::<usize>().ok()).unwrap_or(16);
            rayon::ThreadPoolBuilder::new().num_threads(threads).stack_size(16 << 20).build_global().ok();
            common::start_watchdog();
            let code = match props::run(id, tier) {
                Some(c) => c,
                None => usage(),
            };
            std::process::exit(code);
        }
    }
}

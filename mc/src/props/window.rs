//! E4 — explicit-state model checking of the two dictionary windows (`LzCircularBuffer`,
//! `LzAccumBuffer`) against a `Vec<u8>` history model. Used by C09 (reference guards) and C10 (limit).
use crate::cases::{Case, Hex, Obs, WOp, WinHarness, V};
use crate::common::Ctx;
use std::collections::{HashMap, VecDeque};
use std::sync::atomic::Ordering;

#[derive(Clone)]
struct Model {
    circular: bool,
    dict: usize,
    limit: u64,
    /// everything produced since construction
    hist: Vec<u8>,
    /// start of the current dictionary (accumulating window: index of last reset)
    base: usize,
}
impl Model {
    fn win_len(&self) -> usize {
        self.hist.len() - self.base
    }
    fn valid(&self, d: usize) -> bool {
        if self.circular {
            d >= 1 && d <= self.dict && d <= self.hist.len()
        } else {
            d >= 1 && d <= self.win_len()
        }
    }
    /// expected result of appending one byte: Err when the limit forbids it
    fn push(&mut self, b: u8) -> bool {
        if self.circular {
            let len = self.hist.len();
            if len < self.dict && (len as u64 + 1) > self.limit {
                return false;
            }
        } else if (self.win_len() as u64 + 1) > self.limit {
            return false;
        }
        self.hist.push(b);
        true
    }
    fn expected_sink(&self, finished: bool) -> &[u8] {
        if finished {
            &self.hist
        } else if self.circular {
            let full = (self.hist.len() / self.dict) * self.dict;
            &self.hist[..full]
        } else {
            &self.hist[..self.base]
        }
    }
}

fn obs_of(h: &WinHarness, v: V) -> Obs {
    Obs {
        v,
        out: Hex(h.sink.st.borrow().data.clone()),
        consumed: 0,
        reads: 0,
        writes: 0,
        flushes: 0,
        flushed_all: false,
        fault_hit: false,
        sink_calls_after_fault: 0,
        peak_heap: 0,
        ops: vec![],
    }
}

pub struct WinStats {
    pub states: u64,
    pub transitions: u64,
    pub probes: u64,
    pub invalid_refs_rejected: u64,
    pub limit_errors: u64,
}

/// Breadth-first exploration of one window configuration up to `lmax` produced bytes.
/// `check_limit_only`: when false, invalid-reference probes are evaluated (C09); the limit is always modelled.
pub fn explore(ctx: &Ctx, circular: bool, dict: usize, limit: u64, lmax: usize) -> WinStats {
    let mut st = WinStats { states: 0, transitions: 0, probes: 0, invalid_refs_rejected: 0, limit_errors: 0 };
    let mk_case = |ops: &[WOp]| Case::Window { circular, dict, memlimit: limit, ops: ops.to_vec() };
    let replay = |hist: &[WOp]| -> (WinHarness, Model) {
        let mut h = WinHarness::new(circular, dict, limit);
        let mut m = Model { circular, dict, limit, hist: vec![], base: 0 };
        for op in hist {
            let _ = h.apply(op);
            apply_model(&mut m, op);
        }
        (h, m)
    };
    fn apply_model(m: &mut Model, op: &WOp) -> Option<bool> {
        match op {
            WOp::Lit(b) => Some(m.push(*b)),
            WOp::Lz(l, d) => {
                if !m.valid(*d) {
                    return Some(false);
                }
                for _ in 0..*l {
                    let b = m.hist[m.hist.len() - *d];
                    if !m.push(b) {
                        return Some(false);
                    }
                }
                Some(true)
            }
            WOp::Bytes(b) => {
                m.hist.extend_from_slice(&b.0);
                Some(true)
            }
            WOp::Reset => {
                m.base = m.hist.len();
                Some(true)
            }
            _ => None,
        }
    }
    let mut seen: HashMap<u128, ()> = HashMap::new();
    let mut q: VecDeque<Vec<WOp>> = VecDeque::new();
    {
        let (h, _) = replay(&[]);
        seen.insert(h.fingerprint(), ());
        q.push_back(vec![]);
        st.states += 1;
    }
    let big = [dict, dict + 1, 0xFFFF_FFFFusize, 0x1_0000_0000usize];
    while let Some(hist) = q.pop_front() {
        let (h0, m0) = replay(&hist);
        // ---- invariants of this state
        let fp0 = h0.fingerprint();
        if h0.len() != m0.win_len() && !circular || circular && h0.len() != m0.hist.len() {
            ctx.violation(&mk_case(&hist), &format!("window len() == {}", if circular { m0.hist.len() } else { m0.win_len() }), &obs_of(&h0, V::Ok), None);
        }
        if h0.sink.st.borrow().data != m0.expected_sink(false) {
            ctx.violation(&mk_case(&hist), &format!("sink holds exactly the flushed history {:02x?}", m0.expected_sink(false)), &obs_of(&h0, V::Ok), None);
        }
        if circular && h0.buf_len() as u64 > limit {
            ctx.violation(&mk_case(&hist), &format!("window never buffers more than the limit {} (buffered {})", limit, h0.buf_len()), &obs_of(&h0, V::Ok), None);
        }
        // ---- probes: last_or, last_n for every distance, invalid append_lz, finish
        {
            let mut probe = |op: WOp, expect: Result<Option<u8>, ()>, what: &str| {
                let (mut h, _) = replay(&hist);
                let r = h.apply(&op);
                st.probes += 1;
                ctx.traces.fetch_add(1, Ordering::Relaxed);
                let ok = match (&r.v, &expect) {
                    (V::Ok, Ok(None)) => true,
                    (V::Ok, Ok(Some(b))) => r.n == Some(*b as u64),
                    (V::Err(_), Err(())) => true,
                    _ => false,
                };
                let unchanged = matches!(op, WOp::Finish) || h.fingerprint() == fp0;
                if !ok || !unchanged {
                    let mut ops = hist.clone();
                    ops.push(op);
                    let o = Obs { ops: vec![r.clone()], ..obs_of(&h, r.v.clone()) };
                    ctx.violation(&mk_case(&ops), &format!("{} (and window state unchanged by a query / rejected reference)", what), &o, None);
                }
                matches!(r.v, V::Err(_))
            };
            let last = if circular { m0.hist.last().copied() } else { m0.hist[m0.base..].last().copied() };
            probe(WOp::LastOr(0x5A), Ok(Some(last.unwrap_or(0x5A))), "last_or returns the last byte of the window or the default");
            let wl = if circular { m0.hist.len() } else { m0.win_len() };
            let mut ds: Vec<usize> = (1..=wl + 2).collect();
            ds.extend_from_slice(&big);
            ds.sort_unstable();
            ds.dedup();
            for d in ds {
                if d == 0 {
                    continue;
                }
                if m0.valid(d) {
                    let b = m0.hist[m0.hist.len() - d];
                    probe(WOp::LastN(d), Ok(Some(b)), &format!("last_n({}) == {:#04x}", d, b));
                } else {
                    if probe(WOp::LastN(d), Err(()), &format!("last_n({}) is an error: distance beyond window (produced {}, dict {})", d, wl, dict)) {
                        st.invalid_refs_rejected += 1;
                    }
                    for l in [1usize, 2, dict + 1] {
                        if probe(WOp::Lz(l, d), Err(()), &format!("append_lz({}, {}) is an error: distance beyond window (produced {}, dict {})", l, d, wl, dict)) {
                            st.invalid_refs_rejected += 1;
                        }
                    }
                }
            }
            // finish: sink == complete history
            let (mut h, m) = replay(&hist);
            let r = h.apply(&WOp::Finish);
            st.probes += 1;
            if !(r.v.is_ok() && h.sink.st.borrow().data == m.expected_sink(true)) {
                let mut ops = hist.clone();
                ops.push(WOp::Finish);
                ctx.violation(&mk_case(&ops), &format!("finish delivers the complete history {:02x?}", m.expected_sink(true)), &obs_of(&h, r.v), None);
            }
        }
        // ---- transitions
        let produced = m0.hist.len();
        if produced >= lmax {
            continue;
        }
        let room = lmax - produced;
        let mut ops: Vec<WOp> = vec![WOp::Lit(0x61), WOp::Lit(0x62)];
        let wl = if circular { m0.hist.len().min(dict) } else { m0.win_len() };
        for d in 1..=wl {
            for l in 1..=room {
                ops.push(WOp::Lz(l, d));
            }
        }
        if !circular {
            ops.push(WOp::Bytes(Hex(vec![0x62, 0x61])));
            if m0.win_len() > 0 {
                ops.push(WOp::Reset);
            }
        }
        for op in ops {
            if let WOp::Bytes(b) = &op {
                if b.0.len() > room {
                    continue;
                }
            }
            let (mut h, mut m) = replay(&hist);
            let r = h.apply(&op);
            let exp = apply_model(&mut m, &op).unwrap();
            st.transitions += 1;
            ctx.traces.fetch_add(1, Ordering::Relaxed);
            let mut next = hist.clone();
            next.push(op.clone());
            let ok = match (&r.v, exp) {
                (V::Ok, true) => true,
                (V::Err(_), false) => {
                    st.limit_errors += 1;
                    true
                }
                _ => false,
            };
            // after the op (Ok or limit error) the sink must be a prefix-consistent flush of the model history
            let sink_ok = {
                let s = h.sink.st.borrow();
                s.data == m.expected_sink(false)
            };
            let len_ok = h.len() == if circular { m.hist.len() } else { m.win_len() };
            if !ok || !sink_ok || !len_ok {
                let o = Obs { ops: vec![r.clone()], ..obs_of(&h, r.v.clone()) };
                ctx.violation(
                    &mk_case(&next),
                    &format!(
                        "{:?} after history {:02x?}: {} (limit {}), len {} and sink {:02x?}",
                        op,
                        m0.hist,
                        if exp { "Ok" } else { "Err(exceeded memory limit), bytes appended so far kept" },
                        limit,
                        if circular { m.hist.len() } else { m.win_len() },
                        m.expected_sink(false)
                    ),
                    &o,
                    None,
                );
                continue;
            }
            if matches!(r.v, V::Err(_)) {
                // an erroring append is terminal for a decoder; do not explore beyond
                continue;
            }
            let fp = h.fingerprint();
            if seen.insert(fp, ()).is_none() {
                st.states += 1;
                q.push_back(next);
            }
        }
    }
    ctx.states.fetch_add(st.states, Ordering::Relaxed);
    ctx.transitions.fetch_add(st.transitions, Ordering::Relaxed);
    st
}

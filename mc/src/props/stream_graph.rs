//! E2 — explicit-state exploration of the real `Stream` object over ALL ways to present an input
//! to `write()`. Nodes are (input offset, 128-bit fingerprint of the complete live internal state, sink
//! contents); edges are single `write(&x[o..o+k])` calls for every k in 0..=n-o. Expanding a node
//! re-executes its representative history on a fresh object (no Clone needed on library types).
use crate::cases::{dec_plain, Case, Fmt, Hex, Obs, OpObs, Opts, SOp, Sk, StreamH, V};
use crate::common::{brief_bytes, Ctx};
use std::collections::{HashMap, VecDeque};
use std::sync::atomic::Ordering;

pub enum Mode {
    /// C05: verdict/output of finish after all input == one-shot decoder
    Equivalence,
    /// C15: allow_incomplete; `full` = complete decode, `table` = (absolute bytes consumed, bytes produced) per symbol
    Prefix { full: Vec<u8>, table: Vec<(usize, usize)>, header_len: usize },
    /// C16: continue past failure and past the declared size
    Latch { size_in_effect: Option<u64> },
    /// C07: only totality (no panic on any edge or probe)
    Total,
}

#[derive(Default, Debug, Clone)]
pub struct GraphStats {
    pub states: u64,
    pub edges: u64,
    pub merges: u64,
    pub audits: u64,
    pub oneshot_ok: bool,
    pub max_window_buf: usize,
    pub failed_nodes: u64,
    pub terminal_nodes: u64,
    pub completed_nodes: u64,
    pub max_states_per_offset: u64,
    pub finish_probes: u64,
    pub max_lag_seen: usize,
    pub not_closed: bool,
}

/// history entry meaning "flush()" (every other entry is the length of a write)
const FLUSH: u32 = u32::MAX;

struct Node {
    hist: Vec<u32>,
    offset: usize,
    failed: bool,
}

fn replay(x: &[u8], opts: &Opts, hist: &[u32]) -> (StreamH, usize, Vec<OpObs>) {
    let mut h = StreamH::new_logged(opts, &Sk::default());
    let mut off = 0usize;
    let mut obs = Vec::with_capacity(hist.len());
    for &k in hist {
        if k == FLUSH {
            obs.push(h.apply(&SOp::Flush));
            continue;
        }
        let r = h.apply(&SOp::Write(Hex(x[off..off + k as usize].to_vec())));
        if let (V::Ok, Some(c)) = (&r.v, r.n) {
            off += c as usize;
        }
        obs.push(r);
    }
    (h, off, obs)
}

fn case_of(x: &[u8], opts: &Opts, hist: &[u32], extra: &[SOp]) -> Case {
    // reconstruct the ops with the actual slices (offsets advance by the bytes each write consumed)
    let mut h = StreamH::new_logged(opts, &Sk::default());
    let mut off = 0usize;
    let mut ops = Vec::new();
    for &k in hist {
        if k == FLUSH {
            h.apply(&SOp::Flush);
            ops.push(SOp::Flush);
            continue;
        }
        let op = SOp::Write(Hex(x[off..off + k as usize].to_vec()));
        let r = h.apply(&op);
        ops.push(op);
        if let (V::Ok, Some(c)) = (&r.v, r.n) {
            off += c as usize;
        }
    }
    ops.extend_from_slice(extra);
    Case::Stream { opts: *opts, sk: Sk::default(), ops }
}

fn obs_stream(h: &StreamH, last: &OpObs) -> Obs {
    Obs {
        v: last.v.clone(),
        out: Hex(h.sink_bytes()),
        consumed: 0,
        reads: 0,
        writes: 0,
        flushes: 0,
        flushed_all: false,
        fault_hit: false,
        sink_calls_after_fault: 0,
        peak_heap: 0,
        ops: vec![last.clone()],
    }
}

pub fn explore(ctx: &Ctx, x: &[u8], opts: &Opts, mode: &Mode, label: &str) -> GraphStats {
    explore_from(ctx, x, opts, mode, label, &[])
}

/// History that feeds `x[..p]` like `write_all` would (re-offering what a write did not consume).
pub fn write_all_history(x: &[u8], opts: &Opts, p: usize) -> Vec<u32> {
    let mut h = StreamH::new_logged(opts, &Sk::default());
    let mut off = 0usize;
    let mut hist = Vec::new();
    while off < p {
        let k = p - off;
        let r = h.apply(&SOp::Write(Hex(x[off..p].to_vec())));
        hist.push(k as u32);
        match (&r.v, r.n) {
            (V::Ok, Some(c)) if c > 0 => off += c as usize,
            _ => break,
        }
    }
    hist
}

/// Like `explore`, but the exploration starts from the state reached by `init` (a fixed way of presenting a
/// prefix of the input); from there on every slice length is explored. Used for long streams whose interesting
/// region is the tail.
pub fn explore_from(ctx: &Ctx, x: &[u8], opts: &Opts, mode: &Mode, label: &str, init: &[u32]) -> GraphStats {
    let n = x.len();
    let mut gs = GraphStats::default();
    let (v1, out1, _) = dec_plain(Fmt::Lzma, opts, x);
    gs.oneshot_ok = v1.is_ok();
    let audit_all = std::env::var("VERIF_AUDIT_ALL").is_ok();
    // one-shot verdict for every prefix of the input (class, output, message)
    let first_off = if init.is_empty() { 0 } else { replay(x, opts, init).1 };
    let one: Vec<(&'static str, Vec<u8>, String)> = if matches!(mode, Mode::Equivalence) {
        (0..=n)
            .map(|m| {
                if m < first_off {
                    return ("unused", Vec::new(), String::new());
                }
                let (v, o, _) = dec_plain(Fmt::Lzma, opts, &x[..m]);
                let msg = match &v {
                    V::Err(e) | V::Panic(e) => e.clone(),
                    V::Ok => String::new(),
                };
                (v.class(), o, msg)
            })
            .collect()
    } else {
        Vec::new()
    };
    let _ = &out1;
    // fingerprint -> (node index, fingerprint-with-dead-bytes of the representative)
    let mut seen: HashMap<(usize, u128), (usize, u128)> = HashMap::new();
    let mut nodes: Vec<Node> = Vec::new();
    let mut q: VecDeque<usize> = VecDeque::new();
    let mut per_offset: HashMap<usize, u64> = HashMap::new();
    {
        let (h, off, _) = replay(x, opts, init);
        seen.insert((off, h.fingerprint(false)), (0, h.fingerprint(true)));
        nodes.push(Node { hist: init.to_vec(), offset: off, failed: false });
        q.push_back(0);
        *per_offset.entry(off).or_default() += 1;
    }
    let found = std::cell::Cell::new(0u32);
    let viol = |hist: &[u32], extra: &[SOp], expected: String, h: &StreamH, last: &OpObs| {
        found.set(found.get() + 1);
        ctx.violation(&case_of(x, opts, hist, extra), &format!("{}: {}", label, expected), &obs_stream(h, last), None);
    };
    // the graph of a correct decoder is small (a handful of states per offset); a decoder whose state keeps changing
    // without consuming input would make it infinite, so the exploration of one input stops after its first
    // violations or when it exceeds a generous size, and reports that it did not close
    let node_cap = 400 * (n + 2) + 2000;
    // probe helper: finish on a re-executed copy
    let finish_probe = |hist: &[u32]| -> (OpObs, Vec<u8>, StreamH) {
        let (mut h, _, _) = replay(x, opts, hist);
        let r = h.apply(&SOp::Finish);
        let out = h.sink_bytes();
        (r, out, h)
    };
    while let Some(ni) = q.pop_front() {
        if found.get() >= 3 {
            break;
        }
        if nodes.len() > node_cap {
            gs.not_closed = true;
            ctx.capped.store(true, Ordering::SeqCst);
            ctx.add_extra_count("graphs_not_closed_within_node_cap", 1);
            eprintln!("[{}] state graph for '{}' exceeds {} nodes: exploration of this input stopped (not closed)", ctx.prop, label, node_cap);
            break;
        }
        let hist = nodes[ni].hist.clone();
        let offset = nodes[ni].offset;
        let failed = nodes[ni].failed;
        let (h0, off0, _) = replay(x, opts, &hist);
        debug_assert_eq!(off0, offset);
        let fp0 = h0.fingerprint(false);
        let sink0 = h0.sink_bytes();
        gs.max_window_buf = gs.max_window_buf.max(h0.window_buf_len());
        // ------------------------------------------------------------ per-node checks
        // flush() never panics and does not fail on an infallible sink. It usually changes nothing; if an implementation
        // uses it to hand pending bytes to the sink (or changes any other state), the state after the flush is one more
        // node of the graph and is explored like every other (all writes, the finish probe, the mode's invariants)
        {
            let (mut h, _, _) = replay(x, opts, &hist);
            let r = h.apply(&SOp::Flush);
            gs.edges += 1;
            if !r.v.is_ok() {
                viol(&hist, &[SOp::Flush], "flush() returns Ok (the sink never fails here)".into(), &h, &r);
            } else if h.fingerprint(false) != fp0 {
                let fpn = h.fingerprint(false);
                if !seen.contains_key(&(offset, fpn)) {
                    let mut nh = hist.clone();
                    nh.push(FLUSH);
                    seen.insert((offset, fpn), (nodes.len(), h.fingerprint(true)));
                    nodes.push(Node { hist: nh, offset, failed });
                    q.push_back(nodes.len() - 1);
                    gs.states += 1;
                    ctx.add_extra_count("states_reached_only_through_flush", 1);
                }
            }
        }
        match mode {
            Mode::Equivalence => {
                if failed {
                    gs.failed_nodes += 1;
                    // the failing write was offered x[..upto]; a fatal error means every extension of that
                    // prefix is rejected by the one-shot decoder as well
                    let upto = offset + *hist.last().unwrap() as usize;
                    if let Some(m) = (upto..=n).find(|&m| one[m].0 == "ok") {
                        let (h, _, obs) = replay(x, opts, &hist);
                        viol(&hist, &[], format!("one-shot decoder succeeds on the first {} bytes ({} bytes out), so a write offered only the first {} bytes may not fail", m, one[m].1.len(), upto), &h, obs.last().unwrap());
                    }
                } else if offset > 0 {
                    // prefix-closure: the caller may stop here (truncated input x[..offset]) and call finish
                    gs.terminal_nodes += 1;
                    let (r, out, h) = finish_probe(&hist);
                    gs.finish_probes += 1;
                    ctx.traces.fetch_add(1, Ordering::Relaxed);
                    let mut targets = vec![offset];
                    if offset < n {
                        // if the remainder is refused (Ok(0), nothing delivered) finish is also the end for the full input
                        let (mut h2, _, _) = replay(x, opts, &hist);
                        let r2 = h2.apply(&SOp::Write(Hex(x[offset..].to_vec())));
                        if r2.v.is_ok() && r2.n == Some(0) && h2.sink_len() == sink0.len() && h2.fingerprint(false) == fp0 {
                            targets.push(n);
                        }
                    }
                    for m in targets {
                        let same = match (r.v.class(), one[m].0) {
                            ("ok", "ok") => out == one[m].1,
                            ("err", "err") => true,
                            _ => false,
                        };
                        if !same {
                            viol(
                                &hist,
                                &[SOp::Finish],
                                format!(
                                    "finish() after this chunking of the first {} input bytes == one-shot decoder on x[..{}]: {}",
                                    offset,
                                    m,
                                    if one[m].0 == "ok" { format!("Ok with {} ({} bytes)", brief_bytes(&one[m].1), one[m].1.len()) } else { format!("{} {}", one[m].0, one[m].2) }
                                ),
                                &h,
                                &r,
                            );
                            break;
                        }
                    }
                }
            }
            Mode::Total => {
                let (r, _, h) = finish_probe(&hist);
                gs.finish_probes += 1;
                if r.v.is_panic() {
                    viol(&hist, &[SOp::Finish], "finish() never panics".into(), &h, &r);
                }
                if failed {
                    gs.failed_nodes += 1;
                }
            }
            Mode::Prefix { full, table, header_len } => {
                if failed {
                    gs.failed_nodes += 1;
                    let (h, _, obs) = replay(x, opts, &hist);
                    viol(&hist, &[], "a valid stream never makes write() fail".into(), &h, obs.last().unwrap());
                } else {
                    if !full.starts_with(&sink0) {
                        let (h, _, obs) = replay(x, opts, &hist);
                        let last = obs.last().cloned().unwrap_or(OpObs { v: V::Ok, n: None, sink_len: 0, fault: false });
                        viol(&hist, &[], format!("bytes delivered to the sink are a prefix of the complete output {}", brief_bytes(full)), &h, &last);
                    }
                    // get_output is Some and shows the same bytes
                    {
                        let (mut h, _, _) = replay(x, opts, &hist);
                        let r = h.apply(&SOp::GetOutput);
                        if !(r.v.is_ok() && r.n == Some(sink0.len() as u64)) {
                            viol(&hist, &[SOp::GetOutput], "get_output() is Some(sink)".into(), &h, &r);
                        }
                    }
                    let (r, out, h) = finish_probe(&hist);
                    gs.finish_probes += 1;
                    ctx.traces.fetch_add(1, Ordering::Relaxed);
                    if r.v.is_panic() {
                        viol(&hist, &[SOp::Finish], "finish() never panics".into(), &h, &r);
                    } else if offset >= header_len + 5 {
                        // determined output: last symbol fully contained in the first offset-64 bytes
                        let horizon = offset.saturating_sub(64);
                        let must = table.iter().filter(|(c, _)| *c <= horizon).map(|(_, p)| *p).max().unwrap_or(0);
                        let determined = table.iter().filter(|(c, _)| *c <= offset).map(|(_, p)| *p).max().unwrap_or(0);
                        if r.v.is_ok() {
                            gs.max_lag_seen = gs.max_lag_seen.max(determined.saturating_sub(out.len()));
                        }
                        if !(r.v.is_ok() && full.starts_with(&out) && out.len() >= must.min(full.len())) {
                            viol(
                                &hist,
                                &[SOp::Finish],
                                format!("finish() with allow_incomplete after {} of {} input bytes: Ok(p), p a prefix of the complete output, |p| >= {} (everything determined by the first {} bytes)", offset, n, must, horizon),
                                &h,
                                &r,
                            );
                        }
                    } else if r.v.is_ok() && !full.starts_with(&out) {
                        viol(&hist, &[SOp::Finish], "finish() output is a prefix of the complete output".into(), &h, &r);
                    }
                }
            }
            Mode::Latch { size_in_effect } => {
                let junk: Vec<Vec<u8>> = vec![vec![0x00], vec![0xFF, 0xFF, 0xFF], x[..n.min(20)].to_vec(), x[offset..].to_vec()];
                if failed {
                    gs.failed_nodes += 1;
                    // get_output None, finish Err, every further write Ok(0) and nothing delivered
                    {
                        let (mut h, _, _) = replay(x, opts, &hist);
                        let r = h.apply(&SOp::GetOutput);
                        if !(r.v.is_ok() && r.n.is_none()) {
                            viol(&hist, &[SOp::GetOutput], "get_output() is None after a failed write".into(), &h, &r);
                        }
                    }
                    {
                        let (r, _, h) = finish_probe(&hist);
                        gs.finish_probes += 1;
                        if !r.v.is_err() || h.sink_len() != sink0.len() {
                            viol(&hist, &[SOp::Finish], "finish() after a failed write is Err and delivers nothing".into(), &h, &r);
                        }
                    }
                    for j in &junk {
                        for rep in 1..=2 {
                            let (mut h, _, _) = replay(x, opts, &hist);
                            let mut ops = Vec::new();
                            let mut last = None;
                            for _ in 0..rep {
                                let op = SOp::Write(Hex(j.clone()));
                                last = Some(h.apply(&op));
                                ops.push(op);
                            }
                            let r = last.unwrap();
                            ctx.traces.fetch_add(1, Ordering::Relaxed);
                            if !(r.v.is_ok() && r.n == Some(0) && h.sink_len() == sink0.len()) {
                                viol(&hist, &ops, "after a failed write, every later write returns Ok(0) and delivers nothing".into(), &h, &r);
                            }
                            ops.push(SOp::Finish);
                            let rf = h.apply(&SOp::Finish);
                            if !rf.v.is_err() {
                                viol(&hist, &ops, "finish() stays Err after a failed write".into(), &h, &rf);
                            }
                        }
                        // the same through io::Write::write_all (what callers and io::copy use): nothing is consumed, so
                        // a non-empty buffer cannot be reported as written
                        {
                            let (mut h, _, _) = replay(x, opts, &hist);
                            let op = SOp::StdWriteAll(Hex(j.clone()));
                            let r = h.apply(&op);
                            if !(r.v.is_err() && h.sink_len() == sink0.len()) {
                                viol(&hist, &[op], "after a failed write, write_all of a non-empty buffer is an error (no input is reported as consumed) and delivers nothing".into(), &h, &r);
                            }
                        }
                    }
                    continue;
                }
                // completed: the decoder has produced at least the size in effect (reached exactly, or overshot by a copy)
                if let Some(s) = size_in_effect {
                    let produced = h0.produced();
                    if h0.phase() == 2 && produced.map(|p| p as u64 >= *s).unwrap_or(false) {
                        gs.completed_nodes += 1;
                        let exact = produced == Some(*s as usize);
                        let (r, out, _) = finish_probe(&hist);
                        gs.finish_probes += 1;
                        if exact && !(r.v.is_ok() && out.len() as u64 == *s) {
                            let (h, _, _) = replay(x, opts, &hist);
                            viol(&hist, &[SOp::Finish], format!("declared size {} reached exactly: finish() is Ok with exactly that many bytes", s), &h, &r);
                        }
                        for j in &junk {
                            if j.is_empty() {
                                continue;
                            }
                            let (mut h, _, _) = replay(x, opts, &hist);
                            let op = SOp::Write(Hex(j.clone()));
                            let r1 = h.apply(&op);
                            let r2 = h.apply(&op);
                            ctx.traces.fetch_add(1, Ordering::Relaxed);
                            for rr in [&r1, &r2] {
                                if !(rr.v.is_ok() && rr.n == Some(0) && h.sink_len() == sink0.len()) {
                                    viol(&hist, &[op.clone(), op.clone()], format!("declared size {} reached ({} bytes produced): further writes consume nothing and leave the output unchanged", s, produced.unwrap_or(0)), &h, rr);
                                    break;
                                }
                            }
                            {
                                let (mut h2, _, _) = replay(x, opts, &hist);
                                let opw = SOp::StdWriteAll(Hex(j.clone()));
                                let rw = h2.apply(&opw);
                                if !(rw.v.is_err() && h2.sink_len() == sink0.len()) {
                                    viol(&hist, &[opw], format!("declared size {} reached: write_all of a non-empty buffer is an error (nothing more is consumed) and leaves the output unchanged", s), &h2, &rw);
                                }
                            }
                            let rf = h.apply(&SOp::Finish);
                            if exact && !(rf.v.is_ok() && h.sink_bytes() == out) {
                                viol(&hist, &[op.clone(), op.clone(), SOp::Finish], format!("declared size {} reached: finish() still Ok with the same {} bytes", s, out.len()), &h, &rf);
                            }
                        }
                    }
                }
            }
        }
        if failed {
            continue;
        }
        // ------------------------------------------------------------ edges: every slice length
        for k in 0..=(n - offset) {
            let (mut h, _, _) = replay(x, opts, &hist);
            let r = h.apply(&SOp::Write(Hex(x[offset..offset + k].to_vec())));
            gs.edges += 1;
            let mut next_hist = hist.clone();
            next_hist.push(k as u32);
            match &r.v {
                V::Panic(_) => {
                    viol(&next_hist, &[], "write() never panics".into(), &h, &r);
                    continue;
                }
                V::Err(_) => {
                    let key = (usize::MAX, h.fingerprint(false));
                    if !seen.contains_key(&key) {
                        seen.insert(key, (nodes.len(), 0));
                        nodes.push(Node { hist: next_hist, offset, failed: true });
                        q.push_back(nodes.len() - 1);
                        gs.states += 1;
                    }
                    continue;
                }
                V::Ok => {}
            }
            let c = r.n.unwrap_or(0) as usize;
            if c > k {
                viol(&next_hist, &[], format!("write() reports at most the {} bytes it was given as consumed", k), &h, &r);
                continue;
            }
            let noff = offset + c;
            let fp = h.fingerprint(false);
            match seen.get(&(noff, fp)) {
                None => {
                    seen.insert((noff, fp), (nodes.len(), h.fingerprint(true)));
                    nodes.push(Node { hist: next_hist, offset: noff, failed: false });
                    q.push_back(nodes.len() - 1);
                    *per_offset.entry(noff).or_default() += 1;
                }
                Some(&(rep, rep_dead)) => {
                    gs.merges += 1;
                    // audit: merged histories must have the same futures. Literal identity (dead bytes included)
                    // needs no audit; otherwise compare probe results with the representative's.
                    if audit_all || h.fingerprint(true) != rep_dead {
                        gs.audits += 1;
                        let probe = |hh: &[u32]| -> (String, Vec<u8>, String, Vec<u8>) {
                            let (mut a, o, _) = replay(x, opts, hh);
                            let r1 = a.apply(&SOp::Write(Hex(x[o..].to_vec())));
                            let r2 = a.apply(&SOp::Finish);
                            let (mut b, _, _) = replay(x, opts, hh);
                            let r3 = b.apply(&SOp::Finish);
                            (format!("{}:{:?}/{}", r1.v.class(), r1.n, r2.v.class()), a.sink_bytes(), r3.v.class().to_string(), b.sink_bytes())
                        };
                        if probe(&next_hist) != probe(&nodes[rep].hist) {
                            ctx.machinery_error(&format!("unsound merge in the Stream state graph ({}): histories {:?} and {:?} have equal live fingerprints but different futures", label, next_hist, nodes[rep].hist));
                        }
                    }
                }
            }
        }
    }
    gs.states += nodes.iter().filter(|n| !n.failed).count() as u64;
    gs.max_states_per_offset = per_offset.values().copied().max().unwrap_or(0);
    ctx.states.fetch_add(gs.states, Ordering::Relaxed);
    ctx.transitions.fetch_add(gs.edges, Ordering::Relaxed);
    gs
}

//! C01 — LZMA decoding is exact for every well-formed stream (E1 program-space exploration).
use crate::cases::{dec_plain, Case, Fmt, Hex, Obs, Opts, RawH, RawOp, Rd, SizeOpt, Sk, V};
use crate::common::{brief_bytes, Ctx, Tier};
use crate::explore::{count_upto, nth_seq, par_for};
use crate::refmodel::enc::{self, prog_str, Sym};
use serde_json::json;
use std::collections::BTreeSet;
use std::sync::atomic::Ordering;
use std::sync::Mutex;
use std::time::Instant;

/// How one program is presented to lzma-rs.
#[derive(Clone, Copy, Debug)]
pub enum Variant {
    /// .lzma, size in header, no marker
    Known { dict: u32 },
    /// .lzma, size field all-ones, marker
    Marker { dict: u32 },
    /// .lzma, header size field wrong but overridden by ReadHeaderButUseProvided(Some(n)), no marker
    Provided { dict: u32 },
    /// 5-byte header, UseProvided(None), marker
    ShortHeaderMarker { dict: u32 },
    /// .lzma, size in header, source hands over one byte at a time
    KnownBytewise { dict: u32 },
    /// .lzma with a real size in the header AND a marker, decoded with ReadHeaderButUseProvided(None)
    HeaderIgnoredMarker { dict: u32 },
    /// 5-byte header, UseProvided(Some(n)), no marker
    ShortHeaderProvided { dict: u32 },
    /// .lzma, size in header; LzmaParams::read_header + raw::LzmaDecoder
    RawFromHeader { dict: u32 },
    /// .lzma, size in header, memory limit equal to the dictionary in effect (max(dict, 4096)): the window never needs more
    KnownLimit { dict: u32 },
    /// raw decoder, size known
    RawKnown { dict: u32 },
    /// raw decoder, marker
    RawMarker { dict: u32 },
}

pub struct Built {
    pub case: Case,
    pub expect: Vec<u8>,
}

/// Build the lzma-rs call for (program, params, variant). Returns None if the program is not well-formed.
pub fn build(lc: u32, lp: u32, pb: u32, prog: &[Sym], var: Variant, model_dict: u64) -> Option<(Built, enc::Encoded)> {
    let marker = matches!(var, Variant::Marker { .. } | Variant::ShortHeaderMarker { .. } | Variant::RawMarker { .. } | Variant::HeaderIgnoredMarker { .. });
    let mut p = prog.to_vec();
    if marker {
        p.push(Sym::E);
    }
    let e = enc::encode(lc, lp, pb, model_dict, &p);
    if e.bad.is_some() {
        return None;
    }
    let n = e.expect.len() as u64;
    let case = match var {
        Variant::Known { dict } => Case::Dec {
            fmt: Fmt::Lzma,
            opts: Opts::default(),
            input: Hex(enc::lzma_file(lc, lp, pb, dict, Some(n), &e.payload)),
            rd: Rd::default(),
            sk: Sk::default(),
        },
        Variant::KnownLimit { dict } => Case::Dec {
            fmt: Fmt::Lzma,
            opts: Opts { memlimit: Some(dict.max(4096) as u64), ..Opts::default() },
            input: Hex(enc::lzma_file(lc, lp, pb, dict, Some(n), &e.payload)),
            rd: Rd::default(),
            sk: Sk::default(),
        },
        Variant::KnownBytewise { dict } => Case::Dec {
            fmt: Fmt::Lzma,
            opts: Opts::default(),
            input: Hex(enc::lzma_file(lc, lp, pb, dict, Some(n), &e.payload)),
            rd: Rd { period: 1, ..Rd::default() },
            sk: Sk::default(),
        },
        Variant::Marker { dict } => Case::Dec {
            fmt: Fmt::Lzma,
            opts: Opts::default(),
            input: Hex(enc::lzma_file(lc, lp, pb, dict, None, &e.payload)),
            rd: Rd::default(),
            sk: Sk::default(),
        },
        Variant::Provided { dict } => Case::Dec {
            fmt: Fmt::Lzma,
            opts: Opts { size: SizeOpt::HeaderProvided(Some(n)), ..Opts::default() },
            input: Hex(enc::lzma_file(lc, lp, pb, dict, Some(n + 7), &e.payload)),
            rd: Rd::default(),
            sk: Sk::default(),
        },
        Variant::ShortHeaderMarker { dict } => {
            let mut f = enc::lzma_header(lc, lp, pb, dict, None);
            f.truncate(5);
            f.extend_from_slice(&e.payload);
            Case::Dec { fmt: Fmt::Lzma, opts: Opts { size: SizeOpt::Provided(None), ..Opts::default() }, input: Hex(f), rd: Rd::default(), sk: Sk::default() }
        }
        Variant::HeaderIgnoredMarker { dict } => Case::Dec {
            fmt: Fmt::Lzma,
            opts: Opts { size: SizeOpt::HeaderProvided(None), ..Opts::default() },
            input: Hex(enc::lzma_file(lc, lp, pb, dict, Some(n + 1), &e.payload)),
            rd: Rd::default(),
            sk: Sk::default(),
        },
        Variant::ShortHeaderProvided { dict } => {
            let mut f = enc::lzma_header(lc, lp, pb, dict, None);
            f.truncate(5);
            f.extend_from_slice(&e.payload);
            Case::Dec { fmt: Fmt::Lzma, opts: Opts { size: SizeOpt::Provided(Some(n)), ..Opts::default() }, input: Hex(f), rd: Rd { bufreader: 2, ..Rd::default() }, sk: Sk::default() }
        }
        Variant::RawFromHeader { dict } => Case::RawLzmaHdr { opts: Opts::default(), input: Hex(enc::lzma_file(lc, lp, pb, dict, Some(n), &e.payload)) },
        Variant::RawKnown { dict } => Case::RawLzma { lc, lp, pb, dict, size: Some(n), memlimit: None, ops: vec![RawOp::Dec(Hex(e.payload.clone()))] },
        Variant::RawMarker { dict } => Case::RawLzma { lc, lp, pb, dict, size: None, memlimit: None, ops: vec![RawOp::Dec(Hex(e.payload.clone()))] },
    };
    Some((Built { case, expect: e.expect.clone() }, e))
}

/// Fast execution of a built case: (verdict, output, consumed, input_len)
pub fn exec(case: &Case) -> (V, Vec<u8>, usize, usize) {
    match case {
        Case::Dec { fmt, opts, input, rd, sk } => {
            if !rd.is_plain() || !sk.is_plain() {
                let o = crate::cases::run_case(case);
                return (o.v, o.out.0, o.consumed, input.0.len());
            }
            let (v, o, c) = dec_plain(*fmt, opts, &input.0);
            (v, o, c, input.0.len())
        }
        Case::RawLzmaHdr { input, .. } => {
            let o = crate::cases::run_case(case);
            (o.v, o.out.0, o.consumed, input.0.len())
        }
        Case::RawLzma { lc, lp, pb, dict, size, memlimit, ops } => match RawH::new_lzma(*lc, *lp, *pb, *dict, *size, *memlimit) {
            Ok(mut h) => {
                let r = h.apply(&ops[0]);
                let n = if let RawOp::Dec(d) = &ops[0] { d.0.len() } else { 0 };
                (r.v, r.out, r.consumed, n)
            }
            Err(v) => (v, vec![], 0, 0),
        },
        _ => unreachable!(),
    }
}

/// Decode a built case and compare with the model. Reports a violation on mismatch.
pub fn check_exact(ctx: &Ctx, b: &Built, what: &str) -> bool {
    let (v, out, consumed, inlen) = exec(&b.case);
    ctx.traces.fetch_add(1, Ordering::Relaxed);
    let ok = v.is_ok() && out == b.expect && consumed == inlen;
    if !ok {
        let obs = Obs {
            v,
            out: Hex(out),
            consumed,
            reads: 0,
            writes: 0,
            flushes: 0,
            flushed_all: false,
            fault_hit: false,
            sink_calls_after_fault: 0,
            peak_heap: 0,
            ops: vec![],
        };
        ctx.violation(
            &b.case,
            &format!("{}: Ok, output == {} ({} bytes), all {} input bytes consumed", what, brief_bytes(&b.expect), b.expect.len(), inlen),
            &obs,
            None,
        );
    }
    ok
}

fn lits(n: usize, seed: u64) -> Vec<Sym> {
    // distinct-ish literal values; `seed` rotates the representatives
    (0..n).map(|i| Sym::L((0x61u64 + (i as u64) * 7 + seed * 13) as u8)).collect()
}

pub fn automaton_alphabet(seed: u64) -> Vec<Sym> {
    let a = (0x41 + (seed % 20) as u8, 0xC3u8.wrapping_add((seed % 11) as u8));
    vec![
        Sym::L(a.0),
        Sym::L(a.1),
        Sym::M(1, 2),
        Sym::M(2, 3),
        Sym::M(3, 10),
        Sym::M(4, 18),
        Sym::S,
        Sym::R(0, 2),
        Sym::R(1, 3),
        Sym::R(2, 9),
        Sym::R(3, 18),
    ]
}

pub fn run(tier: Tier) -> i32 {
    let ctx = Ctx::new("C01", "model_checking", tier);
    ctx.set_rule("E1: every symbol program of the stated scopes (prefix-closed spaces setup·Σ^≤d, length×distance sweeps, wrap-straddling programs on tiny dictionaries, all 225 lc/lp/pb) is encoded by the reference encoder and decoded by lzma-rs in several presentations (known size, end marker, provided size, 5-byte header, raw decoder; several dictionary sizes). A state is a program prefix (= model state reached by that history), a transition appends one symbol. distinct_nontrivial = programs containing at least one copy symbol (match/rep/shortrep).");
    ctx.assume("reference encoder/LZ77 interpreter is bound to liblzma by `lzmc bind` (setup)");
    let seed = ctx.seed;
    let cover_sk: Mutex<BTreeSet<(u8, u8)>> = Mutex::new(BTreeSet::new());
    let cover_ls: Mutex<BTreeSet<(u8, u8)>> = Mutex::new(BTreeSet::new());
    let merge_cover = |e: &enc::Encoded| {
        // merging per program is cheap compared with decoding
        let mut a = cover_sk.lock().unwrap();
        for x in &e.cover.state_kind {
            a.insert(*x);
        }
        drop(a);
        let mut b = cover_ls.lock().unwrap();
        for x in &e.cover.len_slot {
            b.insert(*x);
        }
    };

    // ------------------------------------------------------------------ scope 1: automaton
    // (settings, depth for setup 0, depth for setup 1): the 6 MiB literal table of lc+lp = 12 makes every decode cost
    // ~90 us, so the heavy settings get one level less
    let groups: Vec<(Vec<(u32, u32, u32)>, usize, usize)> = tier.pick(
        vec![(vec![(3, 0, 2), (0, 0, 0), (0, 4, 0), (4, 0, 4), (1, 2, 3)], 5, 4), (vec![(8, 4, 4)], 3, 2)],
        vec![(vec![(3, 0, 2), (0, 0, 0), (0, 4, 0), (4, 0, 4), (1, 2, 3), (2, 2, 1)], 6, 4), (vec![(3, 0, 2)], 7, 5), (vec![(8, 0, 0)], 5, 4), (vec![(8, 4, 4)], 3, 2)],
    );
    let sigma = automaton_alphabet(seed);
    let setups: Vec<(&str, Vec<Sym>)> = vec![
        ("4lits", lits(4, seed)),
        ("4dists", {
            let mut s = lits(6, seed);
            s.extend([Sym::M(5, 2), Sym::M(3, 2), Sym::M(2, 3), Sym::M(4, 2)]);
            s
        }),
    ];
    for (settings, d0, d1) in &groups {
    for (si, (sname, setup)) in setups.iter().enumerate() {
        let depth = if si == 0 { *d0 } else { *d1 };
        let name = format!("automaton/{}/depth<={}/{:?}", sname, depth, settings);
        if !ctx.may_start(&name) {
            continue;
        }
        let t0 = Instant::now();
        let total = count_upto(sigma.len(), depth);
        let nset = settings.len() as u64;
        par_for(total * nset, |i| {
            let (lc, lp, pb) = settings[(i % nset) as usize];
            let seq = nth_seq(sigma.len(), depth, i / nset);
            let mut prog = setup.clone();
            prog.extend(seq.iter().map(|&k| sigma[k]));
            let maxd = prog.iter().map(|s| if let Sym::M(d, _) = s { *d } else { 1 }).max().unwrap_or(1).max(4);
            let variants = [
                Variant::Known { dict: 0 },
                Variant::Marker { dict: 0xFFFF_FFFF },
                Variant::Provided { dict: 65536 },
                Variant::ShortHeaderMarker { dict: 4096 },
                Variant::RawKnown { dict: maxd },
                Variant::RawMarker { dict: maxd + 1 },
                Variant::KnownBytewise { dict: 4097 },
                Variant::HeaderIgnoredMarker { dict: 5000 },
                Variant::ShortHeaderProvided { dict: 0x1801 },
                Variant::RawFromHeader { dict: 0x2000 },
                Variant::KnownLimit { dict: 4096 },
            ];
            let mut first = true;
            for var in variants {
                if let Some((b, e)) = build(lc, lp, pb, &prog, var, u64::MAX) {
                    if first {
                        first = false;
                        ctx.eval(1);
                        ctx.states.fetch_add(1, Ordering::Relaxed);
                        ctx.transitions.fetch_add(if seq.is_empty() { setup.len() as u64 } else { 1 }, Ordering::Relaxed);
                        if seq.iter().any(|&k| !matches!(sigma[k], Sym::L(_))) {
                            ctx.nontriv(1);
                        }
                        merge_cover(&e);
                        if i % 100_003 == 7 {
                            ctx.sample(json!({"scope": name, "lc": lc, "lp": lp, "pb": pb, "program": prog_str(&prog), "expect": brief_bytes(&b.expect)}));
                        }
                    }
                    check_exact(&ctx, &b, &format!("program [{}] lc={} lp={} pb={} as {:?}", prog_str(&prog), lc, lp, pb, var));
                }
            }
        });
        ctx.scope_done(&name, total * nset, t0, &format!("{} programs x {} lc/lp/pb x 10 presentations", total, nset));
    }
    }

    // ------------------------------------------------------------------ scope 2: length x distance sweep
    {
        let maxlog = tier.pick(20u32, 26u32);
        let name = format!("len-x-dist-sweep/maxdist=2^{}", maxlog);
        if ctx.may_start(&name) {
            let t0 = Instant::now();
            let sets: Vec<(u32, u32, u32)> = tier.pick(vec![(3, 0, 2), (0, 2, 0)], vec![(3, 0, 2), (0, 2, 0), (2, 1, 4), (8, 4, 4)]);
            let count = std::sync::atomic::AtomicU64::new(0);
            par_for(sets.len() as u64 * 2, |i| {
                let (lc, lp, pb) = sets[(i / 2) as usize];
                let marker = i % 2 == 1;
                // setup: aperiodic content of a bit more than 2^maxlog bytes
                let need: usize = (1usize << maxlog) + 2;
                let mut prog: Vec<Sym> = (0..=255u32).map(|b| Sym::L(((b * 167 + 13) & 0xFF) as u8)).collect();
                let mut produced = 256usize;
                let mut k = 0u32;
                while produced < need {
                    let d = 200 + (k * 37 + seed as u32 * 3) % 56;
                    prog.push(Sym::M(d, 273));
                    prog.push(Sym::L(((k * 101 + 7) & 0xFF) as u8));
                    produced += 274;
                    k += 1;
                }
                // every length x lowest/highest distance of every slot that fits
                let mut tests = 0u64;
                for len in 2..=273u32 {
                    for slot in 0..=(2 * maxlog + 1) {
                        let (lo, hi) = if slot < 4 {
                            (slot, slot)
                        } else {
                            let nd = (slot >> 1) - 1;
                            let base = (2 | (slot & 1)) << nd;
                            (base, base + (1 << nd) - 1)
                        };
                        for d0 in [lo, hi] {
                            let dist = d0 as u64 + 1;
                            if dist > (1u64 << maxlog) || dist as usize > produced {
                                continue;
                            }
                            prog.push(Sym::M(dist as u32, len));
                            prog.push(Sym::L(((len * 31 + slot) & 0xFF) as u8));
                            produced += len as usize + 1;
                            tests += 1;
                            if len % 16 == 2 {
                                prog.push(Sym::R(0, 2 + (slot % 7)));
                                produced += 2 + (slot % 7) as usize;
                            }
                        }
                    }
                }
                count.fetch_add(tests, Ordering::Relaxed);
                let dict = 1u32 << maxlog;
                let var = if marker { Variant::Marker { dict } } else { Variant::Known { dict } };
                let (b, e) = build(lc, lp, pb, &prog, var, dict as u64).expect("sweep program must be well-formed");
                merge_cover(&e);
                ctx.eval(1);
                ctx.nontriv(1);
                ctx.states.fetch_add(prog.len() as u64, Ordering::Relaxed);
                ctx.transitions.fetch_add(prog.len() as u64, Ordering::Relaxed);
                check_exact(&ctx, &b, &format!("length x distance sweep ({} symbols, {} tested matches) lc={} lp={} pb={} {:?}", prog.len(), tests, lc, lp, pb, var));
                if i == 0 {
                    ctx.sample(json!({"scope": name, "symbols": prog.len(), "tested_matches": tests, "output_bytes": b.expect.len(), "tail": prog_str(&prog[prog.len()-6..])}));
                }
            });
            ctx.scope_done(&name, sets.len() as u64 * 2, t0, &format!("{} (len,dist) matches inside the programs", count.load(Ordering::Relaxed)));
        }
    }

    // ------------------------------------------------------------------ scope 3a: wrap scope on tiny dictionaries (raw decoder)
    {
        let nmax = tier.pick(6usize, 10usize);
        let name = format!("wrap/raw/dict=1..{}", nmax);
        if ctx.may_start(&name) {
            let t0 = Instant::now();
            // enumerate (n, j, d, l, follow)
            let mut items: Vec<(usize, usize, usize, usize, usize)> = Vec::new();
            for n in 1..=nmax {
                for j in 1..=(2 * n + 3) {
                    for d in 1..=n.min(j) {
                        for l in 2..=(2 * n + 3) {
                            for f in 0..5 {
                                items.push((n, j, d, l, f));
                            }
                        }
                    }
                }
            }
            let triples: Mutex<BTreeSet<(usize, usize, usize, usize)>> = Mutex::new(BTreeSet::new());
            let wraps = std::sync::atomic::AtomicU64::new(0);
            par_for(items.len() as u64, |i| {
                let (n, j, d, l, f) = items[i as usize];
                let mut prog = lits(j, seed);
                prog.push(Sym::M(d as u32, l as u32));
                match f {
                    0 => {}
                    1 => prog.push(Sym::L(0x7E)),
                    2 => prog.push(Sym::S),
                    3 => prog.push(Sym::R(0, 2)),
                    _ => {
                        prog.push(Sym::L(0x11));
                        prog.push(Sym::M(1.max(n as u32), 2));
                    }
                }
                let cursor = j % n;
                if f == 0 {
                    triples.lock().unwrap().insert((n, cursor, d, l));
                }
                if cursor + l >= n {
                    wraps.fetch_add(1, Ordering::Relaxed);
                    ctx.nontriv(1);
                }
                let (lc, lp, pb) = [(3, 0, 2), (0, 0, 0), (1, 1, 1)][i as usize % 3];
                let mut first = true;
                for var in [Variant::RawKnown { dict: n as u32 }, Variant::RawMarker { dict: n as u32 }] {
                    if let Some((b, _)) = build(lc, lp, pb, &prog, var, n as u64) {
                        if first {
                            first = false;
                            ctx.eval(1);
                            ctx.states.fetch_add(1, Ordering::Relaxed);
                            ctx.transitions.fetch_add(1, Ordering::Relaxed);
                            if i % 9973 == 1 {
                                ctx.sample(json!({"scope": name, "dict": n, "program": prog_str(&prog), "expect": brief_bytes(&b.expect)}));
                            }
                        }
                        check_exact(&ctx, &b, &format!("program [{}] on raw decoder dict={} lc={} lp={} pb={} {:?}", prog_str(&prog), n, lc, lp, pb, var));
                    }
                }
            });
            ctx.set_extra("wrap_cursor_dist_len_triples", json!(triples.lock().unwrap().len()));
            ctx.scope_done(&name, items.len() as u64, t0, &format!("{} programs straddle the wrap point", wraps.load(Ordering::Relaxed)));
        }
    }

    // ------------------------------------------------------------------ scope 3a': the same with trained matched-literal probabilities
    {
        let nmax = tier.pick(6usize, 9usize);
        let name = format!("wrap/raw-trained/dict=2..{}", nmax);
        if ctx.may_start(&name) {
            let t0 = Instant::now();
            let mut items: Vec<(usize, usize, usize, usize)> = Vec::new();
            for n in 2..=nmax {
                for o in 0..n {
                    for d in 1..=n {
                        for l in 2..=(n + 2) {
                            items.push((n, o, d, l));
                        }
                    }
                }
            }
            par_for(items.len() as u64, |i| {
                let (n, o, d, l) = items[i as usize];
                // training: literal, match(dist 1), matched literal - 30 times with 3 different byte pairs
                let mut prog: Vec<Sym> = Vec::new();
                for k in 0..30u32 {
                    let a = [0x91u8, 0x5C, 0xE3][(k % 3) as usize];
                    prog.push(Sym::L(a));
                    prog.push(Sym::M(1, 2));
                    prog.push(Sym::L(a ^ [0x0Fu8, 0xF0, 0x81][(k % 3) as usize]));
                }
                for k in 0..o {
                    prog.push(Sym::L((0xA1 + k * 0x13) as u8));
                }
                prog.push(Sym::M(d as u32, l as u32));
                prog.push(Sym::L(0xC7)); // matched literal whose reference byte position sweeps over the whole window
                prog.push(Sym::S);
                prog.push(Sym::L(0x3A));
                for (lc, lp, pb) in [(0u32, 0u32, 0u32), (3, 0, 2)] {
                    for var in [Variant::RawKnown { dict: n as u32 }, Variant::RawMarker { dict: n as u32 }] {
                        if let Some((b, _)) = build(lc, lp, pb, &prog, var, n as u64) {
                            ctx.eval(1);
                            ctx.nontriv(1);
                            ctx.states.fetch_add(1, Ordering::Relaxed);
                            ctx.transitions.fetch_add(1, Ordering::Relaxed);
                            check_exact(&ctx, &b, &format!("trained program ending [.. {}] on raw decoder dict={} lc={} lp={} pb={} {:?}", prog_str(&prog[prog.len() - 4..]), n, lc, lp, pb, var));
                        }
                    }
                }
            });
            ctx.scope_done(&name, items.len() as u64, t0, "matched literals at every window position after 30 rounds of matched-literal training");
        }
    }
    // ------------------------------------------------------------------ scope 3b: wrap at 4096 through the public API (header dict 0, 1, 4095, 4096)
    {
        let name = "wrap/public/dict=4096";
        if ctx.may_start(name) {
            let t0 = Instant::now();
            let jmax = tier.pick(20usize, 48usize);
            let mut items = Vec::new();
            for j in 0..=jmax {
                for l in 2..=(jmax + 2) {
                    for d in [1u32, 2, 4095, 4096] {
                        for hd in [0u32, 1, 4095, 4096] {
                            items.push((j, l, d, hd));
                        }
                    }
                }
            }
            // longer non-overlapping copies that end exactly at (one before, one after) the end of the window, in the first,
            // second and third lap (lap encoded in j: j + 10000 * (lap - 1))
            for lap in 0..3usize {
                for (l, d) in [(16usize, 16u32), (16, 300), (40, 300), (200, 300), (273, 273), (273, 4096), (18, 4000)] {
                    for dj in [0usize, 1, 2] {
                        let j = l + dj - 1;
                        if j >= 1 {
                            items.push((j + 10000 * lap, l, d, 4096));
                        }
                    }
                }
            }
            par_for(items.len() as u64, |i| {
                let (j, l, d, hd) = items[i as usize];
                let (lap, j) = (j / 10000, j % 10000);
                // grow output to exactly 4096 * (lap + 1) - j with varied content
                let target = 4096 * (lap + 1) - j;
                let mut prog: Vec<Sym> = (0..64u32).map(|b| Sym::L(((b * 67 + 3) & 0xFF) as u8)).collect();
                let mut produced = 64usize;
                let mut k = 0u32;
                while produced + 40 < target {
                    let len = (30 + (k * 7) % 200).min((target - produced - 20) as u32).max(2);
                    prog.push(Sym::M(20 + (k * 11) % 40, len));
                    produced += len as usize;
                    if produced + 1 < target {
                        prog.push(Sym::L((k * 29 + 1) as u8));
                        produced += 1;
                    }
                    k += 1;
                }
                while produced < target {
                    prog.push(Sym::L((produced * 5 + 1) as u8));
                    produced += 1;
                }
                prog.push(Sym::M(d, l as u32));
                prog.push(Sym::L(0xEE));
                prog.push(Sym::R(0, 3));
                // what follows reads back across the wrap point at short and long distances
                prog.extend([Sym::M(1, 5), Sym::L(0x78), Sym::M(2, 9), Sym::M(4000, 30), Sym::M(15, 40)]);
                let var = if i % 3 == 0 { Variant::Known { dict: hd } } else if i % 3 == 1 { Variant::Marker { dict: hd } } else { Variant::KnownLimit { dict: hd } };
                if let Some((b, _)) = build(3, 0, 2, &prog, var, 4096) {
                    ctx.eval(1);
                    ctx.nontriv(1);
                    ctx.states.fetch_add(1, Ordering::Relaxed);
                    ctx.transitions.fetch_add(1, Ordering::Relaxed);
                    check_exact(&ctx, &b, &format!("wrap at 4096: {} bytes then M({},{}) header dict={} {:?}", target, d, l, hd, var));
                }
            });
            ctx.scope_done(name, items.len() as u64, t0, "copies across the 4096 wrap point, header dictionary 0/1/4095/4096 (clamp)");
        }
    }

    // ------------------------------------------------------------------ scope 2b: every byte value as literal, as matched literal and as match byte
    {
        let name = "literal-values/256x256";
        if ctx.may_start(name) {
            let t0 = Instant::now();
            let settings: Vec<(u32, u32, u32)> = tier.pick(vec![(3, 0, 2), (0, 0, 0)], vec![(3, 0, 2), (0, 0, 0), (8, 0, 0), (4, 4, 4), (0, 4, 0)]);
            par_for((256 * 256 * settings.len()) as u64, |i| {
                let (lc, lp, pb) = settings[i as usize / 65536];
                let m = ((i >> 8) & 0xFF) as u8;
                let v = (i & 0xFF) as u8;
                // literal m; literal q; copy (m q); matched literal v against match byte m; short rep (= m again... the byte
                // two back); matched literal m against v's predecessor; plain literals v, m in the contexts they create
                let q = m.wrapping_mul(31).wrapping_add(0x5B);
                let prog = [Sym::L(m), Sym::L(q), Sym::M(2, 2), Sym::L(v), Sym::S, Sym::L(m), Sym::L(v), Sym::L(v ^ 0xFF), Sym::M(1, 2), Sym::L(m ^ 0x80)];
                let var = if i % 2 == 0 { Variant::Known { dict: 4096 } } else { Variant::RawMarker { dict: 16 } };
                if let Some((b, _)) = build(lc, lp, pb, &prog, var, 16) {
                    ctx.eval(1);
                    ctx.nontriv(1);
                    ctx.states.fetch_add(1, Ordering::Relaxed);
                    ctx.transitions.fetch_add(1, Ordering::Relaxed);
                    check_exact(&ctx, &b, &format!("program [{}] lc={} lp={} pb={} {:?}", prog_str(&prog), lc, lp, pb, var));
                }
            });
            ctx.scope_done(name, (65536 * settings.len()) as u64, t0, "every (match byte, literal) pair as plain and as matched literal");
        }
    }
    // ------------------------------------------------------------------ scope 3c: windows larger than 64 KiB that wrap (several times)
    {
        let name = "wrap/public+raw/dict>64KiB";
        if ctx.may_start(name) {
            let t0 = Instant::now();
            let mut items = Vec::new();
            for dict in tier.pick(vec![65537u32, 100000, 0x18_0000], vec![65537u32, 70000, 100000, 131072, 200000, 0x10_0001, 0x18_0000, 0x40_0000]) {
                for total in [dict as usize - 1, dict as usize, dict as usize + 1, 2 * dict as usize + 77, 3 * dict as usize + 5] {
                    for v in 0..3 {
                        items.push((dict, total, v));
                    }
                }
            }
            par_for(items.len() as u64, |i| {
                let (dict, total, v) = items[i as usize];
                // 600 varied bytes, then long copies at varying (also far) distances with single literals in between
                let mut prog: Vec<Sym> = (0..600u32).map(|b| Sym::L(((b * 67 + b / 7 + 3) & 0xFF) as u8)).collect();
                let mut produced = 600usize;
                let mut k = 0u32;
                while produced < total {
                    let room = total - produced;
                    if room >= 2 && k % 5 != 4 {
                        let l = room.min(273 - (k as usize * 13) % 100).max(2);
                        let far = (produced.min(dict as usize) as u32).saturating_sub(1 + (k * 97) % 500).max(1);
                        let d = if k % 3 == 0 { far } else { 1 + (k * 31) % 590 };
                        prog.push(Sym::M(d, l as u32));
                        produced += l;
                    } else {
                        prog.push(Sym::L((k * 29 + 1) as u8));
                        produced += 1;
                    }
                    k += 1;
                }
                let var = match v {
                    0 => Variant::Known { dict },
                    1 => Variant::Marker { dict },
                    _ => Variant::RawKnown { dict },
                };
                if let Some((b, _)) = build(3, 0, 2, &prog, var, dict as u64) {
                    ctx.eval(1);
                    ctx.nontriv(1);
                    ctx.states.fetch_add(1, Ordering::Relaxed);
                    ctx.transitions.fetch_add(1, Ordering::Relaxed);
                    check_exact(&ctx, &b, &format!("{} output bytes through a {}-byte window (long copies at near and far distances) {:?}", total, dict, var));
                }
            });
            ctx.scope_done(name, items.len() as u64, t0, "dictionaries 65537..200000, output up to 3 x dictionary");
        }
    }

    // ------------------------------------------------------------------ scope 4: all 225 lc/lp/pb
    {
        let name = "params/all-225";
        if ctx.may_start(name) {
            let t0 = Instant::now();
            let mut progs: Vec<Vec<Sym>> = Vec::new();
            // context-training programs
            let pass: Vec<Sym> = (0..48u32).map(|i| Sym::L(((i * 73 + 5 + seed as u32) & 0xFF) as u8)).collect();
            let mut p1 = pass.clone();
            p1.extend(pass.clone());
            progs.push(p1);
            let mut p2 = pass[..20].to_vec();
            for k in 0..12u32 {
                p2.push(Sym::M(3 + k, 2 + k % 3));
                p2.push(Sym::L((0xF0u32.wrapping_sub(k * 17)) as u8)); // matched literal at varying position parity
                if k % 3 == 0 {
                    p2.push(Sym::S);
                }
                if k % 4 == 1 {
                    p2.push(Sym::R((k % 3) as u8, 2 + k));
                    p2.push(Sym::L(k as u8));
                }
            }
            progs.push(p2);
            let mut p3: Vec<Sym> = Vec::new();
            for k in 0..33u32 {
                p3.push(Sym::L(if k % 2 == 0 { 0x00 } else { 0xFF }));
            }
            for k in 0..17u32 {
                p3.push(Sym::M(1 + k % 5, 2 + (k * 5) % 20));
                p3.push(Sym::L((k * 16) as u8));
            }
            progs.push(p3);
            if tier == Tier::Thorough {
                let al = [Sym::L(0x00), Sym::L(0xFF), Sym::L(0x5A), Sym::M(1, 2), Sym::M(3, 5), Sym::S, Sym::R(0, 4), Sym::R(1, 2)];
                let mut prefix = lits(8, seed);
                prefix.extend([Sym::M(2, 3), Sym::M(5, 2)]);
                for i in 0..count_upto(al.len(), 3) {
                    let mut p = prefix.clone();
                    p.extend(nth_seq(al.len(), 3, i).iter().map(|&k| al[k]));
                    progs.push(p);
                }
            }
            // context-polarised walks: every binary decision of the symbol grammar (literal?, rep?, rep0?, short rep?, rep1?)
            // is taken 3 times out of 4 as a hash of its TRUE context index (automaton state, position mod 2^pb) says, so two
            // contexts that a decoder wrongly shares are trained in opposite directions under about half of the 4 hashes
            let walk = |pb: u32, k: u32| -> Vec<Sym> {
                let mut x: u32 = 0x9E37_79B9u32.wrapping_mul(k + 1) ^ (pb * 77 + seed as u32);
                let mut rnd = move || {
                    x = x.wrapping_mul(1664525).wrapping_add(1013904223);
                    x >> 8
                };
                let pol = |var: u32, idx: u32| -> bool { (((var * 131 + idx + 1).wrapping_mul(2654435761u32.wrapping_add(k.wrapping_mul(2246822519)))) >> 15) & 1 == 1 };
                let mut prog: Vec<Sym> = (0..6u32).map(|i| Sym::L((i * 29 + 3) as u8)).collect();
                prog.push(Sym::M(2, 2));
                prog.push(Sym::M(5, 3));
                prog.push(Sym::M(1, 2));
                prog.push(Sym::M(7, 2));
                let mut pos: u32 = 6 + 2 + 3 + 2 + 2;
                let mut st: u32 = 10;
                let mask = (1u32 << pb) - 1;
                for _ in 0..420 {
                    let ps = pos & mask;
                    let follow = |v: bool, r: u32| if r % 4 == 0 { r & 16 != 0 } else { v };
                    let is_lit = !follow(pol(0, (st << 4) + ps), rnd());
                    if is_lit {
                        prog.push(Sym::L(rnd() as u8));
                        pos += 1;
                        st = if st < 4 { 0 } else if st < 10 { st - 3 } else { st - 6 };
                        continue;
                    }
                    let is_rep = follow(pol(1, st), rnd());
                    if !is_rep {
                        let d = 1 + rnd() % 12.min(pos);
                        let l = 2 + rnd() % 4;
                        prog.push(Sym::M(d, l));
                        pos += l;
                        st = if st < 7 { 7 } else { 10 };
                        continue;
                    }
                    let g0 = follow(pol(2, st), rnd());
                    if !g0 {
                        if follow(pol(3, (st << 4) + ps), rnd()) {
                            let l = 2 + rnd() % 5;
                            prog.push(Sym::R(0, l));
                            pos += l;
                            st = if st < 7 { 8 } else { 11 };
                        } else {
                            prog.push(Sym::S);
                            pos += 1;
                            st = if st < 7 { 9 } else { 11 };
                        }
                        continue;
                    }
                    let which = if !follow(pol(4, st), rnd()) { 1 } else if !follow(pol(5, st), rnd()) { 2 } else { 3 };
                    let l = 2 + rnd() % 4;
                    prog.push(Sym::R(which, l));
                    pos += l;
                    st = if st < 7 { 8 } else { 11 };
                }
                prog
            };
            let nfixed = progs.len() as u64;
            let np = nfixed + 4;
            par_for(225 * np, |i| {
                let props = (i / np) as u32;
                let (lc, lp, pb) = (props % 9, (props / 9) % 5, props / 45);
                let walked;
                let prog = if i % np < nfixed {
                    &progs[(i % np) as usize]
                } else {
                    walked = walk(pb, (i % np - nfixed) as u32);
                    &walked
                };
                let mut first = true;
                for var in [Variant::Known { dict: 4096 }, Variant::Marker { dict: 1 << 20 }, Variant::RawKnown { dict: 64 }] {
                    if let Some((b, e)) = build(lc, lp, pb, prog, var, u64::MAX) {
                        if first {
                            first = false;
                            ctx.eval(1);
                            ctx.nontriv(1);
                            ctx.states.fetch_add(1, Ordering::Relaxed);
                            ctx.transitions.fetch_add(1, Ordering::Relaxed);
                            merge_cover(&e);
                        }
                        check_exact(&ctx, &b, &format!("program [{}] lc={} lp={} pb={} {:?}", prog_str(prog), lc, lp, pb, var));
                    }
                }
            });
            ctx.scope_done(name, 225 * np, t0, &format!("{} programs (4 of them context-polarised walks of 420 symbols) x 225 settings x 3 presentations", np));
        }
    }

    let sk = cover_sk.lock().unwrap().len();
    let ls = cover_ls.lock().unwrap().len();
    ctx.set_extra("distinct_state_x_symbolkind_pairs", json!(sk));
    ctx.set_extra("distinct_lenclass_x_distslot_pairs", json!(ls));
    ctx.set_extra("bounds", json!({"automaton_depth": tier.pick(5,7), "max_distance_log2": tier.pick(20,26), "wrap_dict_max": tier.pick(6,8)}));
    ctx.finish()
}

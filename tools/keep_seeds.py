#!/usr/bin/env python3
"""Copies confirmed sub-agent changes from /tmp/seedout/<Cxx>/ into /verif/seeded/<Cxx>-<k>/ with a meta.json that
records what was run (phase 1: baseline + demonstration in a scratch worktree; phase 2: all quick checks on /repo)."""
import json, os, shutil, sys
out_root = '/verif/seeded'
src_root = sys.argv[1] if len(sys.argv) > 1 else '/tmp/seedout'
offset = int(sys.argv[2]) if len(sys.argv) > 2 else 0
os.makedirs(out_root, exist_ok=True)
rows = []
for pid in ["C%02d" % i for i in range(1, 19)]:
    for k in (1, 2):
        src = '%s/%s' % (src_root, pid)
        p1 = '%s/res%d/phase1.json' % (src, k)
        p2 = '%s/res%d/phase2.json' % (src, k)
        if not (os.path.exists(p1) and os.path.exists(p2) and os.path.exists('%s/patch%d.diff' % (src, k))):
            print("skip %s/%d (incomplete)" % (pid, k)); continue
        ph1 = json.load(open(p1)); ph2 = json.load(open(p2))
        ok = ph1.get('baseline_passed') == 59 and ph1.get('baseline_failed') == 0 and ph1.get('demo_exit_with_change') != 0 and ph1.get('demo_exit_without_change') == 0
        if not ok:
            print("NOT KEPT %s/%d: %s" % (pid, k, ph1)); continue
        meta_a = json.load(open('%s/meta%d.json' % (src, k)))
        d = '%s/%s-%d' % (out_root, pid, k + offset)
        os.makedirs(d, exist_ok=True)
        shutil.copy('%s/patch%d.diff' % (src, k), d + '/patch.diff')
        shutil.copy('%s/demo%d.rs' % (src, k), d + '/demo.rs')
        detected = sorted(c for c, rc in ph2['checks'].items() if rc == 1)
        first_run_detected = list(detected)
        first_mode = "all 18 quick checks on /repo (apply, check, undo)"
        pf = '%s/res%d/first.json' % (src, k)
        if os.path.exists(pf):
            # rounds >= 5: the "first as is" run of all 18 checks was made in scratch lanes (tools/seedfirst_par.sh) with the
            # harness as it stood before the change was known; phase2.json is the confirmation on /repo itself afterwards
            fj = json.load(open(pf))
            first_run_detected = sorted(c for c, rc in fj['checks'].items() if rc == 1)
            first_mode = "all 18 quick checks in scratch lanes (tools/seedfirst_par.sh: scratch worktree of /repo HEAD + copy of the harness), before any strengthening"
            for c in first_run_detected:
                if c not in detected:
                    detected.append(c)
            detected.sort()
        p2b = '%s/res%db/phase2.json' % (src, k)
        if os.path.exists(p2b):
            for c, rc in json.load(open(p2b))['checks'].items():
                if rc == 1 and c not in detected:
                    detected.append(c)
            detected.sort()
        machinery = sorted(c for c, rc in ph2['checks'].items() if rc not in (0, 1))
        meta = {
            "property": pid,
            "summary": meta_a.get("summary"),
            "needs": meta_a.get("needs"),
            "files": meta_a.get("files"),
            "source": "fresh sub-agent given only the property text and its own scratch worktree of /repo" + (" (later round: also told the one-line summaries of the earlier changes for this property, to avoid repeats)" if offset else ""),
            "confirmed": {
                "ran": [
                    "scratch worktree of /repo HEAD: git apply patch.diff; cargo test --workspace --no-fail-fast --offline  -> %d passed, %d failed" % (ph1['baseline_passed'], ph1['baseline_failed']),
                    "same worktree: demo.rs as tests/demo.rs; cargo test --offline --features stream,raw_decoder --test demo -> exit %d (fails with the change)" % ph1['demo_exit_with_change'],
                    "git checkout of the sources; same demo -> exit %d (passes without the change)" % ph1['demo_exit_without_change'],
                    "git -C /repo apply patch.diff; ./check <Cxx> quick for %s; git -C /repo checkout -- ." % ("all 18 checks" if len(ph2['checks']) > 2 else "the check(s) " + ", ".join(sorted(ph2['checks']))),
                ],
                "detected_by_quick_checks": detected,
                "own_property_check_detects": pid in detected,
                "own_property_check_detected_on_first_run": pid in first_run_detected,
                "first_run": {"how": first_mode, "detected_by": first_run_detected},
                "machinery_exits": machinery,
            },
        }
        json.dump(meta, open(d + '/meta.json', 'w'), indent=1)
        rows.append((pid, k, meta_a.get("summary", "")[:110], detected))
import glob
idx = []
for dd in sorted(glob.glob(out_root + '/C*-*/')):
    m = json.load(open(dd + 'meta.json'))
    e = {"seed": os.path.basename(dd.rstrip('/')), "summary": m["summary"], "detected_by": m["confirmed"]["detected_by_quick_checks"]}
    if m.get("expect_detected") is False:
        e["expect_detected"] = False
    idx.append(e)
json.dump(idx, open(out_root + '/index.json', 'w'), indent=1)
for p, k, s, d in rows:
    print("%s-%d  detected by %s" % (p, k, ",".join(d) or "NONE"))

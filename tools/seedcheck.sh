#!/bin/bash
# tools/seedcheck.sh <patch.diff> <demo.rs> <outdir> [checks...]
# 1. scratch worktree: apply patch, 59-test baseline must pass, demo must fail; revert, demo must pass.
# 2. apply to /repo, run the quick checks (all 18 unless given), undo. Writes <outdir>/result.json.
set -u
PATCH="$(readlink -f "$1")"; DEMO="$(readlink -f "$2")"; OUT="$3"; shift 3
CHECKS="${*:-C01 C02 C03 C04 C05 C06 C07 C08 C09 C10 C11 C12 C13 C14 C15 C16 C17 C18}"
mkdir -p "$OUT"
WT="/tmp/sv/wt-$$"
mkdir -p /tmp/sv
git -C /repo worktree add -q --detach "$WT" HEAD || exit 2
cleanup() { git -C /repo worktree remove --force "$WT" 2>/dev/null; rm -rf "$WT"; }
trap cleanup EXIT
cd "$WT"
export CARGO_TARGET_DIR=/tmp/sv/target   # shared between seeds to save rebuild time / disk
if ! git apply "$PATCH"; then echo '{"error":"patch does not apply"}' > "$OUT/result.json"; exit 1; fi
cargo test --workspace --no-fail-fast --offline > "$OUT/baseline.log" 2>&1
PASSED=$(grep -E "^test result" "$OUT/baseline.log" | sed -E 's/.* ([0-9]+) passed.*/\1/' | paste -sd+ | bc)
FAILED=$(grep -E "^test result" "$OUT/baseline.log" | sed -E 's/.* ([0-9]+) failed.*/\1/' | paste -sd+ | bc)
cp "$DEMO" tests/demo.rs
cargo test --offline --features stream,raw_decoder --test demo > "$OUT/demo_with.log" 2>&1; DEMO_WITH=$?
git checkout -q -- src Cargo.toml 2>/dev/null
cargo test --offline --features stream,raw_decoder --test demo > "$OUT/demo_without.log" 2>&1; DEMO_WITHOUT=$?
rm -f tests/demo.rs
cd /verif
# run the checks on /repo itself
DET=""
if git -C /repo apply "$PATCH"; then
  for c in $CHECKS; do
    ./check $c quick > "$OUT/$c.log" 2>&1; rc=$?
    DET="$DET \"$c\": $rc,"
  done
  git -C /repo checkout -- .
else
  DET="\"apply_to_repo_failed\": 1,"
fi
echo "{\"baseline_passed\": ${PASSED:-0}, \"baseline_failed\": ${FAILED:-0}, \"demo_exit_with_change\": $DEMO_WITH, \"demo_exit_without_change\": $DEMO_WITHOUT, \"checks\": {${DET%,}}}" > "$OUT/result.json"
cat "$OUT/result.json"

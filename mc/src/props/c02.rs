//! C02 — LZMA2 decoding is exact for every well-formed chunk sequence (E1 over chunk programs).
use crate::cases::{dec_plain, Case, Fmt, Hex, Obs, Opts, RawH, RawOp, Rd, Sk, V};
use crate::common::{brief_bytes, Ctx, Tier};
use crate::explore::{count_upto, nth_seq, par_for};
use crate::refmodel::enc::Sym;
use crate::refmodel::lzma2::{self, chunks_str, Chunk};
use crate::refmodel::xz;
use serde_json::json;
use std::sync::atomic::Ordering;
use std::time::Instant;

pub fn obs_of(v: V, out: Vec<u8>, consumed: usize) -> Obs {
    Obs {
        v,
        out: Hex(out),
        consumed,
        reads: 0,
        writes: 0,
        flushes: 0,
        flushed_all: false,
        fault_hit: false,
        sink_calls_after_fault: 0,
        peak_heap: 0,
        ops: vec![],
    }
}

pub fn chunk_programs(seed: u64) -> Vec<Vec<Sym>> {
    let a = 0x61u8.wrapping_add((seed % 13) as u8);
    vec![
        vec![Sym::L(a), Sym::L(a + 1), Sym::L(a + 2), Sym::M(2, 3), Sym::L(a + 3)],
        vec![Sym::S, Sym::L(0x78)],
        vec![Sym::R(2, 3), Sym::L(0x79)],
        vec![Sym::L(0x7A)],
        vec![Sym::M(5, 4), Sym::S],
        vec![Sym::M(1, 2), Sym::M(3, 2), Sym::M(2, 2), Sym::M(4, 3)],
        {
            let mut v = vec![Sym::L(0x41); 12];
            v.push(Sym::L(0x42));
            v
        },
        vec![Sym::L(0x41), Sym::L(0x41), Sym::L(0x42), Sym::R(0, 2)],
        vec![Sym::L(0x31), Sym::L(0x32), Sym::L(0x33), Sym::M(3, 4)],
    ]
}

pub fn chunk_kinds(seed: u64, reduced: bool) -> Vec<Chunk> {
    let mut k = Vec::new();
    for reset in [true, false] {
        k.push(Chunk::U { reset, data: vec![0x58] });
        k.push(Chunk::U { reset, data: b"wxyz".to_vec() });
    }
    let progs = chunk_programs(seed);
    let props_all = [(3u32, 0u32, 2u32), (0, 0, 0), (1, 3, 4), (4, 0, 1)];
    let props: &[(u32, u32, u32)] = if reduced { &props_all[..2] } else { &props_all[..] };
    let prog_idx: Vec<usize> = if reduced { vec![0, 1, 2, 4, 5] } else { (0..progs.len()).collect() };
    for class in 0..4u8 {
        if class < 2 {
            for &pi in &prog_idx {
                k.push(Chunk::C { class, props: (0, 0, 0), prog: progs[pi].clone() });
            }
        } else {
            for p in props {
                for &pi in &prog_idx {
                    k.push(Chunk::C { class, props: *p, prog: progs[pi].clone() });
                }
            }
        }
    }
    k
}

/// Decode an LZMA2 stream three ways (one-shot, raw decoder, inside a reference XZ container) and compare.
pub fn check_stream(ctx: &Ctx, bytes: &[u8], expect: &[u8], what: &str, with_xz: bool) {
    // one-shot
    let (v, out, consumed) = dec_plain(Fmt::Lzma2, &Opts::default(), bytes);
    ctx.traces.fetch_add(1, Ordering::Relaxed);
    if !(v.is_ok() && out == expect && consumed == bytes.len()) {
        let case = Case::Dec { fmt: Fmt::Lzma2, opts: Opts::default(), input: Hex(bytes.to_vec()), rd: Rd::default(), sk: Sk::default() };
        ctx.violation(&case, &format!("{}: lzma2_decompress Ok, output == {} ({} bytes), reader left after the end byte ({} consumed)", what, brief_bytes(expect), expect.len(), bytes.len()), &obs_of(v, out, consumed), None);
        return;
    }
    // the same stream from a source that hands over one byte / three bytes at a time
    for rd in [Rd { period: 1, ..Rd::default() }, Rd { bufreader: 3, ..Rd::default() }] {
        if bytes.len() > 4096 {
            break;
        }
        let case = Case::Dec { fmt: Fmt::Lzma2, opts: Opts::default(), input: Hex(bytes.to_vec()), rd: rd.clone(), sk: Sk::default() };
        let o = crate::cases::run_case(&case);
        ctx.traces.fetch_add(1, Ordering::Relaxed);
        if !(o.v.is_ok() && o.out.0 == expect && o.consumed == bytes.len()) {
            ctx.violation(&case, &format!("{} read through {:?}: Ok, output == {} ({} bytes)", what, rd, brief_bytes(expect), expect.len()), &o, None);
            return;
        }
    }
    if bytes.len() <= 4096 {
        let case = Case::Dec { fmt: Fmt::Lzma2, opts: Opts::default(), input: Hex(bytes.to_vec()), rd: Rd::default(), sk: Sk { chunk: 3, ..Sk::default() } };
        let o = crate::cases::run_case(&case);
        ctx.traces.fetch_add(1, Ordering::Relaxed);
        if !(o.v.is_ok() && o.out.0 == expect) {
            ctx.violation(&case, &format!("{} into a sink accepting 3 bytes per write: Ok, complete output {} ({} bytes)", what, brief_bytes(expect), expect.len()), &o, None);
            return;
        }
    }
    // raw decoder
    let mut h = RawH::new_lzma2();
    let r = h.apply(&RawOp::Dec(Hex(bytes.to_vec())));
    ctx.traces.fetch_add(1, Ordering::Relaxed);
    if !(r.v.is_ok() && r.out == expect && r.consumed == bytes.len()) {
        let case = Case::RawLzma2 { ops: vec![RawOp::Dec(Hex(bytes.to_vec()))] };
        ctx.violation(&case, &format!("{}: raw Lzma2Decoder Ok, output == {} ({} bytes)", what, brief_bytes(expect), expect.len()), &obs_of(r.v, r.out, r.consumed), None);
        return;
    }
    if with_xz {
        // the block announces the largest dictionary (property byte 40 = 4 GiB - 1) for every other sequence, 8 MiB otherwise
        let filters = if bytes.len() % 2 == 0 { Some(vec![(xz::mbi(0x21), xz::mbi(1), vec![40u8])]) } else { None };
        let f = xz::XzFile { check_id: 4, blocks: vec![xz::Block { payload: bytes.to_vec(), plain: expect.to_vec(), with_csize: true, with_usize: true, o_filters: filters, ..Default::default() }], ..Default::default() };
        let (file, _) = xz::build(&f);
        let (v, out, consumed) = dec_plain(Fmt::Xz, &Opts::default(), &file);
        ctx.traces.fetch_add(1, Ordering::Relaxed);
        if !(v.is_ok() && out == expect) {
            let case = Case::Dec { fmt: Fmt::Xz, opts: Opts::default(), input: Hex(file), rd: Rd::default(), sk: Sk::default() };
            ctx.violation(&case, &format!("{} wrapped as XZ block: xz_decompress Ok, output == {} ({} bytes)", what, brief_bytes(expect), expect.len()), &obs_of(v, out, consumed), None);
        }
    }
}

/// A literal-only program (lc = lp = pb = 0) whose range-coded payload is exactly `want` bytes long (65536 is the largest
/// compressed size an LZMA2 chunk can declare). Deterministic search on the reference encoder.
pub fn literal_program_with_packed_size(want: usize) -> Option<Vec<Sym>> {
    let gen = |n: usize, salt: u32| -> Vec<Sym> { (0..n as u32).map(|i| Sym::L((i.wrapping_add(salt).wrapping_mul(2654435761) >> 13) as u8)).collect() };
    let plen = |q: &Vec<Sym>| crate::refmodel::enc::encode(0, 0, 0, u64::MAX, q).payload.len();
    // coarse approach, then literal by literal, then vary the last literals
    let mut n = 60000usize;
    loop {
        let len = plen(&gen(n, 0));
        if len + 64 >= want {
            break;
        }
        n += (want - len) * 9 / 10;
    }
    for m in n..n + 400 {
        let base = gen(m, 0);
        let len = plen(&base);
        if len == want {
            return Some(base);
        }
        if len > want {
            for back in 1..=3usize {
                for v in 0..=255u8 {
                    let mut q = gen(m - back, 0);
                    let l = q.len();
                    q[l - 1] = Sym::L(v);
                    if plen(&q) == want {
                        return Some(q);
                    }
                }
            }
            return None;
        }
    }
    None
}

pub fn run(tier: Tier) -> i32 {
    let ctx = Ctx::new("C02", "model_checking", tier);
    ctx.set_rule("E1 over chunk programs: every sequence of <= d chunk kinds (uncompressed with/without dictionary reset; LZMA chunks of reset class 0-3 x properties x small symbol programs that are only decodable if state, rep distances, probabilities and dictionary were carried or reset correctly) is serialised by the reference LZMA2 writer; well-formed sequences (liblzma's rules) are decoded by lzma2_decompress, raw::Lzma2Decoder and xz_decompress (wrapped by the reference XZ writer). A state is a chunk-sequence prefix, a transition appends one chunk. distinct_nontrivial = well-formed sequences in which a chunk without full reset follows another chunk (carry-over exercised).");
    ctx.assume("reference LZMA2 writer and XZ writer are bound to liblzma by `lzmc bind`");
    let seed = ctx.seed;

    // ---------------------------------------------------------------- scope 1: all chunk sequences
    for (reduced, depth) in tier.pick(vec![(false, 3usize), (true, 4usize)], vec![(false, 4usize), (true, 5usize)]) {
        let kinds = chunk_kinds(seed, reduced);
        let name = format!("chunk-sequences/{}kinds/depth<={}", kinds.len(), depth);
        if !ctx.may_start(&name) {
            continue;
        }
        let t0 = Instant::now();
        let total = count_upto(kinds.len(), depth);
        let wf = std::sync::atomic::AtomicU64::new(0);
        par_for(total, |i| {
            let seq = nth_seq(kinds.len(), depth, i);
            let cs: Vec<Chunk> = seq.iter().map(|&k| kinds[k].clone()).collect();
            let w = lzma2::write(&cs);
            if w.ill.is_some() {
                return;
            }
            wf.fetch_add(1, Ordering::Relaxed);
            ctx.eval(1);
            ctx.states.fetch_add(1, Ordering::Relaxed);
            ctx.transitions.fetch_add(1, Ordering::Relaxed);
            let carry = cs.iter().skip(1).any(|c| matches!(c, Chunk::C { class, .. } if *class < 3) || matches!(c, Chunk::U { reset: false, .. }));
            if carry {
                ctx.nontriv(1);
            }
            if i % 40_009 == 3 || (carry && i % 10_007 == 5) {
                ctx.sample(json!({"scope": name, "chunks": chunks_str(&cs), "bytes": brief_bytes(&w.bytes), "expect": brief_bytes(&w.expect)}));
            }
            check_stream(&ctx, &w.bytes, &w.expect, &format!("chunk sequence [{}]", chunks_str(&cs)), true);
        });
        ctx.scope_done(&name, total, t0, &format!("{} well-formed sequences decoded 3 ways", wf.load(Ordering::Relaxed)));
    }

    // ---------------------------------------------------------------- scope 2: all 75 legal lc/lp/pb, property change between chunks
    {
        let name = "props/all-75-legal-triples";
        if ctx.may_start(name) {
            let t0 = Instant::now();
            let mut triples = Vec::new();
            for lc in 0..=4u32 {
                for lp in 0..=(4 - lc) {
                    for pb in 0..=4u32 {
                        triples.push((lc, lp, pb));
                    }
                }
            }
            let train: Vec<Sym> = {
                let mut p: Vec<Sym> = (0..40u32).map(|i| Sym::L(((i * 73 + 5) & 0xFF) as u8)).collect();
                p.extend([Sym::M(7, 5), Sym::L(0xF0), Sym::S, Sym::R(0, 3), Sym::L(0x0F), Sym::M(20, 18), Sym::R(1, 2)]);
                p.extend((0..20u32).map(|i| Sym::L(((i * 73 + 5) & 0xFF) as u8)));
                p
            };
            let n = triples.len() as u64;
            par_for(n * n, |i| {
                let a = triples[(i / n) as usize];
                let b = triples[(i % n) as usize];
                // first chunk with props a, then a chunk that changes to props b (class 2), then class 0 continuing, class 1 resetting
                let cs = vec![
                    Chunk::C { class: 3, props: a, prog: train.clone() },
                    Chunk::C { class: 2, props: b, prog: train[..30].iter().cloned().chain([Sym::M(50, 9), Sym::L(1)]).collect() },
                    Chunk::C { class: 0, props: (0, 0, 0), prog: vec![Sym::S, Sym::L(0x33), Sym::R(1, 4), Sym::L(0x44), Sym::L(0x45)] },
                    Chunk::C { class: 1, props: (0, 0, 0), prog: vec![Sym::L(0x33), Sym::M(2, 4), Sym::L(0x44)] },
                ];
                let w = lzma2::write(&cs);
                assert!(w.ill.is_none(), "{:?}", w.ill);
                ctx.eval(1);
                ctx.nontriv(1);
                ctx.states.fetch_add(4, Ordering::Relaxed);
                ctx.transitions.fetch_add(4, Ordering::Relaxed);
                check_stream(&ctx, &w.bytes, &w.expect, &format!("property change {:?} -> {:?}", a, b), i % 16 == 0);
            });
            ctx.scope_done(name, n * n, t0, "every ordered pair of legal (lc,lp,pb): chunk with props A, class-2 change to B, class-0 continuation, class-1 state reset");
        }
    }

    // ---------------------------------------------------------------- scope 2b: inherited properties after a dictionary reset
    // liblzma refuses an LZMA chunk without properties after a dictionary reset; lzma-rs accepts it and continues with the
    // properties and probabilities it has. If it does accept, positions (pos_state, literal position bits) count from the
    // dictionary reset - the only reading under which the accepted stream has a defined content. The chunks before and
    // after the reset are position-polarised (the symbol at position p is a function of p mod 2^max(lp,pb)), so a decoder
    // whose position does not restart meets trained contexts at the wrong phase. Oracle: Err, or exactly the model output.
    {
        let name = "lenient/props-inherited-after-dict-reset";
        if ctx.may_start(name) {
            let t0 = Instant::now();
            let polar = |start: usize, n: usize, period: usize, salt: u32| -> Vec<Sym> {
                (start..start + n)
                    .map(|p| {
                        let ph = (p % period) as u32;
                        if ph as usize == period - 1 && p > 0 {
                            Sym::S
                        } else {
                            Sym::L((ph.wrapping_add(salt).wrapping_mul(2654435761) >> 11) as u8 | if ph % 2 == 0 { 0x80 } else { 0 })
                        }
                    })
                    .collect()
            };
            let mut cases: Vec<(String, Vec<Chunk>)> = Vec::new();
            for props in [(0u32, 2u32, 2u32), (1, 1, 1), (0, 0, 2), (0, 3, 0), (2, 2, 4), (0, 0, 4), (0, 4, 0), (3, 0, 2)] {
                let period = 1usize << props.1.max(props.2);
                for na in [5 * period + 1, 5 * period + 2, 6 * period - 1, 6 * period] {
                    for u in 1..=period.min(5) {
                        for class in [0u8, 1] {
                            for first_u in [false, true] {
                                let mut cs = Vec::new();
                                if first_u {
                                    cs.push(Chunk::U { reset: true, data: vec![0x11; 3] });
                                    cs.push(Chunk::C { class: 2, props, prog: polar(3, na, period, 7) });
                                } else {
                                    cs.push(Chunk::C { class: 3, props, prog: polar(0, na, period, 7) });
                                }
                                cs.push(Chunk::U { reset: true, data: (0..u).map(|i| 0x20 + i as u8).collect() });
                                cs.push(Chunk::C { class, props: (0, 0, 0), prog: polar(u, 3 * period + 2, period, 7) });
                                cs.push(Chunk::C { class: 0, props: (0, 0, 0), prog: polar(u + 3 * period + 2, period + 1, period, 7) });
                                cases.push((format!("props {:?}, {}{} bytes, dictionary reset by a {}-byte uncompressed chunk, class-{} chunk without properties", props, if first_u { "3 stored + " } else { "" }, na, u, class), cs));
                            }
                        }
                    }
                }
            }
            let n = cases.len() as u64;
            let accepted: Vec<std::sync::atomic::AtomicBool> = (0..n).map(|_| std::sync::atomic::AtomicBool::new(false)).collect();
            par_for(n, |i| {
                let (what, cs) = &cases[i as usize];
                let w = lzma2::write(cs);
                assert!(!w.ills.is_empty() && w.ills.iter().all(|s| s.contains("properties needed after dictionary reset")), "{:?}", w.ills);
                ctx.eval(1);
                ctx.nontriv(1);
                ctx.states.fetch_add(cs.len() as u64, Ordering::Relaxed);
                ctx.transitions.fetch_add(cs.len() as u64, Ordering::Relaxed);
                if i % 97 == 0 {
                    ctx.sample(json!({"scope": name, "chunks": chunks_str(cs), "expect": brief_bytes(&w.expect)}));
                }
                let (v, out, consumed) = dec_plain(Fmt::Lzma2, &Opts::default(), &w.bytes);
                ctx.traces.fetch_add(1, Ordering::Relaxed);
                if v.is_ok() {
                    accepted[i as usize].store(true, Ordering::Relaxed);
                }
                if v.is_panic() || (v.is_ok() && !(out == w.expect && consumed == w.bytes.len())) {
                    let case = Case::Dec { fmt: Fmt::Lzma2, opts: Opts::default(), input: Hex(w.bytes.clone()), rd: Rd::default(), sk: Sk::default() };
                    ctx.violation(&case, &format!("{}: refused, or decoded with positions counted from the dictionary reset: output == {} ({} bytes)", what, brief_bytes(&w.expect), w.expect.len()), &obs_of(v, out, consumed), None);
                    return;
                }
                let mut h = RawH::new_lzma2();
                let r = h.apply(&RawOp::Dec(Hex(w.bytes.clone())));
                ctx.traces.fetch_add(1, Ordering::Relaxed);
                if r.v.is_panic() || (r.v.is_ok() && r.out != w.expect) || r.v.is_ok() != v.is_ok() {
                    let case = Case::RawLzma2 { ops: vec![RawOp::Dec(Hex(w.bytes.clone()))] };
                    ctx.violation(&case, &format!("{}: raw Lzma2Decoder gives the verdict of lzma2_decompress ({}), on success output == {} ({} bytes)", what, v.class(), brief_bytes(&w.expect), w.expect.len()), &obs_of(r.v, r.out, r.consumed), None);
                }
            });
            // a refusal on principle (liblzma's rule) does not look at the data: the family is refused as a whole or decoded
            // as a whole. Members differ only in how many bytes precede the reset and in the symbols, never in the framing.
            let n_acc = accepted.iter().filter(|a| a.load(Ordering::Relaxed)).count();
            if n_acc != 0 && n_acc != cases.len() {
                let first_acc = accepted.iter().position(|a| a.load(Ordering::Relaxed)).unwrap();
                let first_ref = accepted.iter().position(|a| !a.load(Ordering::Relaxed)).unwrap();
                let (what, cs) = &cases[first_ref];
                let w = lzma2::write(cs);
                let (v, out, consumed) = dec_plain(Fmt::Lzma2, &Opts::default(), &w.bytes);
                let case = Case::Dec { fmt: Fmt::Lzma2, opts: Opts::default(), input: Hex(w.bytes.clone()), rd: Rd::default(), sk: Sk::default() };
                ctx.violation(&case, &format!("{}: this decoder accepts the same framing in {} of {} family members (e.g. [{}]), so the chunk sequence is legal for it and must decode to {} ({} bytes); a refusal of the framing cannot depend on the data", what, n_acc, cases.len(), cases[first_acc].0, brief_bytes(&w.expect), w.expect.len()), &obs_of(v, out, consumed), None);
            }
            ctx.scope_done(name, n, t0, "position-polarised chunks around a mid-stream dictionary reset; the LZMA chunk after it carries no properties (accepted by lzma-rs only)");
        }
    }

    // ---------------------------------------------------------------- scope 3: size extremes
    {
        let name = "size-extremes";
        if ctx.may_start(name) {
            let t0 = Instant::now();
            let big: Vec<u8> = (0..65536u32).map(|i| (i.wrapping_mul(2654435761u32) >> 24) as u8).collect();
            let mut cases: Vec<(String, Vec<Chunk>)> = Vec::new();
            cases.push(("65536-byte uncompressed chunk".into(), vec![Chunk::U { reset: true, data: big.clone() }]));
            cases.push(("65535-byte uncompressed chunk".into(), vec![Chunk::U { reset: true, data: big[..65535].to_vec() }]));
            cases.push(("two 1-byte chunks".into(), vec![Chunk::U { reset: true, data: vec![1] }, Chunk::C { class: 3, props: (3, 0, 2), prog: vec![Sym::L(2)] }]));
            // long chains of state resets inside one stream (counters that wrap between two uses of a literal context):
            // a chunk using high literal contexts, then c-1 state-reset chunks that avoid them, then one that uses them again
            for c in tier.pick(vec![255usize, 256, 257, 512, 65535, 65536, 65537], vec![255usize, 256, 257, 512, 65535, 65536, 65537, 131072]) {
                let hi: Vec<Sym> = (0..40u32).map(|i| Sym::L(0xE0 + ((i * 7) % 32) as u8)).chain([Sym::M(3, 5), Sym::L(0xFF)]).collect();
                let hi2: Vec<Sym> = (0..30u32).map(|i| Sym::L(0xE1 + ((i * 11) % 30) as u8)).chain([Sym::M(7, 9), Sym::L(0xF0), Sym::S]).collect();
                let lo: Vec<Sym> = (0..6u32).map(|i| Sym::L(((i * 5) % 32) as u8)).collect();
                let mut cs = vec![Chunk::C { class: 3, props: (3, 0, 2), prog: hi }];
                for k in 1..c {
                    cs.push(Chunk::C { class: if k % 2 == 0 { 1 } else { 2 }, props: (3, 0, 2), prog: lo.clone() });
                }
                cs.push(Chunk::C { class: 1, props: (3, 0, 2), prog: hi2 });
                cases.push((format!("chain of {} state-reset chunks between two chunks that use the same literal contexts", c - 1), cs));
            }
            // very many chunks in one stream (chunk counters, accumulated offsets beyond 2^16 / 2^24)
            for nchunks in tier.pick(vec![70_000usize], vec![70_000usize, 300_000]) {
                let mut cs: Vec<Chunk> = Vec::with_capacity(nchunks);
                for k in 0..nchunks {
                    if k % 1000 == 999 {
                        cs.push(Chunk::C { class: if k == 999 { 2 } else if k % 3000 == 2999 { 3 } else { 0 }, props: (3, 0, 2), prog: vec![Sym::L((k / 7) as u8), Sym::S] });
                    } else if k % 3000 == 0 && k > 0 {
                        cs.push(Chunk::C { class: 2, props: (3, 0, 2), prog: vec![Sym::L(k as u8)] });
                    } else {
                        cs.push(Chunk::U { reset: k == 0, data: vec![(k * 31 + 7) as u8; 1 + k % 3] });
                    }
                }
                cases.push((format!("{} chunks of 1-3 bytes", nchunks), cs));
            }
            // megabytes of output in one dictionary, then a dictionary reset in mid-stream, then more data (short and long)
            for (mib, tail) in tier.pick(vec![(5usize, 3usize), (5, 6_000_000)], vec![(5usize, 3usize), (5, 6_000_000), (17, 70_000), (3, 5_000_000)]) {
                let blob: Vec<u8> = (0..(mib << 20) as u32).map(|i| (i.wrapping_mul(2246822519) >> 21) as u8).collect();
                let mut cs: Vec<Chunk> = blob.chunks(65536).enumerate().map(|(k, c)| Chunk::U { reset: k == 0, data: c.to_vec() }).collect();
                let t: Vec<u8> = (0..tail as u32).map(|i| (i.wrapping_mul(40503) >> 7) as u8).collect();
                for (k, c) in t.chunks(65536).enumerate() {
                    cs.push(Chunk::U { reset: k == 0, data: c.to_vec() });
                }
                cs.push(Chunk::C { class: 2, props: (3, 0, 2), prog: vec![Sym::M(2, 40), Sym::L(9)] });
                cases.push((format!("{} MiB in one dictionary, dictionary reset, {} more bytes", mib, tail), cs));
            }
            // compressed chunk with unpacked size exactly 2^21
            let mut p = vec![Sym::L(0x55)];
            p.extend(std::iter::repeat(Sym::M(1, 273)).take(7681));
            p.push(Sym::M(1, 238));
            cases.push(("LZMA chunk with unpacked size 2^21".into(), vec![Chunk::C { class: 3, props: (3, 0, 2), prog: p.clone() }]));
            let mut p2 = vec![Sym::L(0x55)];
            p2.extend(std::iter::repeat(Sym::M(1, 273)).take(7681));
            p2.push(Sym::M(1, 237));
            cases.push(("LZMA chunk with unpacked size 2^21-1 then 1-byte chunk".into(), vec![Chunk::C { class: 3, props: (0, 0, 0), prog: p2 }, Chunk::C { class: 0, props: (0, 0, 0), prog: vec![Sym::S] }]));
            // unpacked size with every high-bits value of the control byte
            for hi in [0usize, 1, 2, 15, 16, 30] {
                let target = (hi << 16) + 1 + 300;
                let mut q = vec![Sym::L(0x21), Sym::L(0x22), Sym::L(0x23)];
                let mut produced = 3usize;
                while produced + 273 <= target {
                    q.push(Sym::M(3, 273));
                    produced += 273;
                }
                while produced + 2 <= target {
                    let l = (target - produced).min(273);
                    q.push(Sym::M(3, l as u32));
                    produced += l;
                }
                if produced < target {
                    q.push(Sym::L(0x24));
                }
                cases.push((format!("LZMA chunk unpacked size {} (control low bits {})", target, hi), vec![Chunk::C { class: 3, props: (2, 1, 1), prog: q }]));
            }
            // packed size near 2^16: incompressible literals
            for nlit in [52000usize, 56000] {
                let q: Vec<Sym> = (0..nlit as u32).map(|i| Sym::L((i.wrapping_mul(2654435761) >> 13) as u8)).collect();
                cases.push((format!("LZMA chunk with {} incompressible literals (packed size near 2^16)", nlit), vec![Chunk::C { class: 3, props: (0, 0, 0), prog: q }]));
            }
            // packed size exactly 2^16 and 2^16 - 1 (the largest encodable compressed size): searched for
            for want in [65536usize, 65535] {
                match literal_program_with_packed_size(want) {
                    Some(q) => cases.push((format!("LZMA chunk with compressed size exactly {}", want), vec![Chunk::C { class: 3, props: (0, 0, 0), prog: q }])),
                    None => ctx.machinery_error(&format!("could not construct a chunk with compressed size exactly {}", want)),
                }
            }
            // dictionary reset in mid-stream after > 64 KiB, then references must stay inside the new dictionary
            cases.push((
                "dictionary reset after > 64 KiB".into(),
                vec![
                    Chunk::U { reset: true, data: big.clone() },
                    Chunk::U { reset: false, data: big[..100].to_vec() },
                    Chunk::C { class: 2, props: (3, 0, 2), prog: vec![Sym::M(65636, 20), Sym::L(7), Sym::M(65000, 273), Sym::S] },
                    Chunk::C { class: 3, props: (1, 0, 1), prog: vec![Sym::L(1), Sym::L(2), Sym::M(2, 50), Sym::L(3)] },
                    Chunk::C { class: 0, props: (0, 0, 0), prog: vec![Sym::M(53, 10), Sym::S, Sym::R(1, 5)] },
                    Chunk::U { reset: true, data: b"fresh".to_vec() },
                    Chunk::C { class: 2, props: (0, 2, 2), prog: vec![Sym::M(5, 5), Sym::L(9)] },
                ],
            ));
            // more than 64 MiB in ONE dictionary: stored chunks up to 1000 bytes before the 2^26 mark, a stored chunk that
            // straddles the mark, then LZMA chunks (no dictionary reset) with a literal and copies from both sides of the mark
            {
                let mut cs: Vec<Chunk> = Vec::new();
                let pat = |base: usize, n: usize| -> Vec<u8> { (0..n).map(|i| (((base + i) as u32).wrapping_mul(2654435761) >> 22) as u8).collect() };
                let mut produced = 0usize;
                let before = (1usize << 26) - 1000;
                while produced < before {
                    let n = (before - produced).min(65536);
                    cs.push(Chunk::U { reset: produced == 0, data: pat(produced, n) });
                    produced += n;
                }
                cs.push(Chunk::U { reset: false, data: pat(produced, 3000) });
                cs.push(Chunk::C { class: 2, props: (3, 0, 2), prog: vec![Sym::L(0x77), Sym::M(1500, 20), Sym::L(0x78), Sym::M(2600, 12), Sym::M(900, 273), Sym::S, Sym::R(1, 7)] });
                cs.push(Chunk::U { reset: false, data: pat(7, 70000 - 65536 + 100) });
                cs.push(Chunk::C { class: 0, props: (3, 0, 2), prog: vec![Sym::M(8000, 40), Sym::L(1), Sym::M(5000, 5)] });
                cases.push(("more than 64 MiB in one dictionary, a stored chunk straddling the 2^26 mark, then copies from both sides of it".into(), cs));
            }
            let ncases = cases.len() as u64;
            par_for(ncases, |i| {
                let (label, cs) = &cases[i as usize];
                let w = lzma2::write(cs);
                if let Some(r) = &w.ill {
                    ctx.machinery_error(&format!("size-extreme case '{}' is ill-formed: {}", label, r));
                }
                ctx.eval(1);
                ctx.nontriv(1);
                ctx.states.fetch_add(cs.len() as u64, Ordering::Relaxed);
                ctx.transitions.fetch_add(cs.len() as u64, Ordering::Relaxed);
                if i < 3 {
                    ctx.sample(json!({"scope": name, "case": label, "stream_bytes": w.bytes.len(), "output_bytes": w.expect.len()}));
                }
                check_stream(&ctx, &w.bytes, &w.expect, label, true);
            });
            ctx.scope_done(name, ncases, t0, "64 KiB / 2 MiB chunk sizes, all control-byte size bits, mid-stream dictionary reset");
        }
    }
    ctx.set_extra("bounds", json!({"chunks_per_sequence": tier.pick(3, 4), "chunks_per_sequence_reduced_kinds": tier.pick(0, 5)}));
    ctx.finish()
}

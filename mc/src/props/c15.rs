//! C15 — streaming output is always a prefix of the final output and keeps up with input (E2, allow_incomplete).
use super::corpus::{self, ALL_OPTS};
use super::stream_graph::{self, Mode};
use crate::cases::{run_case, Case, Hex, Opts, SOp, Sk};
use crate::common::{Ctx, Tier};
use crate::explore::par_for;
use crate::refmodel::dec;
use serde_json::json;
use std::sync::Mutex;
use std::time::Instant;

pub fn run(tier: Tier) -> i32 {
    let ctx = Ctx::new("C15", "model_checking", tier);
    ctx.set_rule("E2 with allow_incomplete = true on valid streams: in EVERY node of the Stream state graph (= after every prefix of the input under every chunking) the sink contents and get_output() are a prefix of the complete output, and finish() on a re-executed copy returns Ok(p) with p a prefix of the complete output and |p| >= the bytes produced by the last symbol whose cumulative input consumption (reference per-symbol table) is <= offset-64, for every offset >= header+5. distinct_nontrivial = inputs with a symbol spanning >= 4 input bytes or wrapping the 4096-byte window.");
    ctx.assume("per-symbol consumption table comes from the reference encoder (eager normalisation), bound to the reference decoder and liblzma by `lzmc bind`");
    let items = corpus::valid_items(ctx.seed, true);
    struct In {
        label: String,
        bytes: Vec<u8>,
        opts: Opts,
        mode: Mode,
        nontriv: bool,
    }
    let mut ins = Vec::new();
    for it in &items {
        for k in ALL_OPTS {
            if tier == Tier::Quick && matches!(k, corpus::OptKind::HeaderProvidedNone) && it.name.starts_with("long-symbols") {
                continue;
            }
            if let Some(b) = it.build(k) {
                let mut opts = b.opts;
                opts.allow_incomplete = true;
                ins.push(In {
                    label: format!("{} [{:?}] max-symbol={}B", it.name, k, b.max_symbol_bytes),
                    bytes: b.bytes.clone(),
                    opts,
                    mode: Mode::Prefix { full: b.expect.clone(), table: b.table.clone(), header_len: b.header_len },
                    nontriv: b.max_symbol_bytes >= 4 || b.expect.len() > 4096,
                });
            }
        }
    }
    // a header that declares 2^32 + 64 bytes (the data stops long before): the part that is there decodes like any other
    // prefix, including a copy from 4560 bytes back (the window is the header's 64 KiB, whatever the declared size)
    {
        use crate::refmodel::enc::{self, Sym};
        let mut prog: Vec<Sym> = (0..40u32).map(|i| Sym::L((i * 7 + 0x61) as u8)).collect();
        for k in 0..17u32 {
            prog.push(Sym::M(1 + (k * 5) % 39, 273));
        }
        prog.extend([Sym::M(4560, 30), Sym::L(0x31), Sym::M(4600, 9), Sym::S, Sym::L(0x32)]);
        let e = enc::encode(3, 0, 2, 1 << 16, &prog);
        if e.bad.is_none() {
            for declared in [(1u64 << 32) + 64, (1 << 32) + 5000, (1 << 40) + 1, u64::MAX - 1] {
                let bytes = enc::lzma_file(3, 0, 2, 1 << 16, Some(declared), &e.payload[..e.payload.len() - 5]);
                let table: Vec<(usize, usize)> = e.table.iter().map(|t| (t.0 + 13, t.1)).filter(|t| t.0 <= bytes.len()).collect();
                ins.push(In {
                    label: format!("4800 bytes with copies from 4560 back, header declares {} bytes", declared),
                    bytes,
                    opts: Opts { allow_incomplete: true, ..Opts::default() },
                    mode: Mode::Prefix { full: e.expect.clone(), table, header_len: 13 },
                    nontriv: true,
                });
            }
        }
    }
    // liblzma-made files: table from the reference decoder
    for (name, bytes) in corpus::repo_lzma_files(400) {
        let props = bytes[0] as u32;
        let (lc, lp, pb) = (props % 9, (props / 9) % 5, props / 45);
        let dict = (u32::from_le_bytes([bytes[1], bytes[2], bytes[3], bytes[4]]) as u64).max(4096);
        let sz = u64::from_le_bytes(bytes[5..13].try_into().unwrap());
        let size = if sz == u64::MAX { None } else { Some(sz) };
        let (v, d) = dec::strict_lzma(lc, lp, pb, dict, size, &bytes[13..], false);
        if let dec::Verdict::Ok(full) = v {
            let table: Vec<(usize, usize)> = d.syms.iter().filter(|s| s.kind != dec::Kind::Eos).map(|s| (s.consumed + 13, s.produced)).collect();
            ins.push(In { label: format!("repo file {}", name), bytes: bytes.clone(), opts: Opts { allow_incomplete: true, ..Opts::default() }, mode: Mode::Prefix { full, table, header_len: 13 }, nontriv: true });
        }
    }
    let t0 = Instant::now();
    let agg = Mutex::new((0u64, 0u64, 0u64, 0usize));
    par_for(ins.len() as u64, |i| {
        if ctx.over_budget() {
            ctx.capped.store(true, std::sync::atomic::Ordering::SeqCst);
            return;
        }
        let inp = &ins[i as usize];
        let g = stream_graph::explore(&ctx, &inp.bytes, &inp.opts, &inp.mode, &inp.label);
        ctx.eval(g.finish_probes);
        if inp.nontriv {
            ctx.nontriv(1);
        }
        let mut a = agg.lock().unwrap();
        a.0 += g.states;
        a.1 += g.edges;
        a.2 += g.finish_probes;
        a.3 = a.3.max(g.max_lag_seen);
        if i % 7 == 0 {
            ctx.sample(json!({"input": inp.label, "len": inp.bytes.len(), "graph_states": g.states, "graph_edges": g.edges, "finish_probes": g.finish_probes, "max_lag_of_finish_output_behind_determined_bytes": g.max_lag_seen}));
        }
    });
    // adversarially trained long symbols (a symbol spanning up to 13-17 input bytes): every chunking of the tail
    {
        let reps = tier.pick(110usize, 180usize);
        let (prog, first) = corpus::adversarial_program(reps);
        let t1 = Instant::now();
        let mut jobs = Vec::new();
        for (marker, sized) in [(true, false), (false, true)] {
            let it = corpus::Item { name: format!("adversarial-{}", reps), lc: 0, lp: 0, pb: 0, dict: 1 << 20, prog: prog.clone(), marker, sized };
            for k in [corpus::OptKind::Header, corpus::OptKind::ProvidedSome] {
                if let Some(b) = it.build(k) {
                    let start = b.table[first - 1].0.saturating_sub(25);
                    let mut opts = b.opts;
                    opts.allow_incomplete = true;
                    for bytewise in [false, true] {
                        let init: Vec<u32> = if bytewise { vec![1; start] } else { stream_graph::write_all_history(&b.bytes, &opts, start) };
                        jobs.push((format!("{} [{:?}] marker={} prefix {}; longest symbol {} bytes", it.name, k, marker, if bytewise { "bytewise" } else { "at once" }, b.max_symbol_bytes), b.bytes.clone(), opts, init, Mode::Prefix { full: b.expect.clone(), table: b.table.clone(), header_len: b.header_len }));
                    }
                }
            }
        }
        // the longest symbol of the format: an end marker on a fully adverse path (18 input bytes)
        {
            let (mprog, mfirst, mlen) = corpus::adversarial_marker_best(230);
            let it = corpus::Item { name: "adversarial-marker-230".into(), lc: 0, lp: 0, pb: 0, dict: 1 << 20, prog: mprog, marker: true, sized: false };
            for k in [corpus::OptKind::Header, corpus::OptKind::ProvidedNone] {
                if let Some(b) = it.build(k) {
                    let start = b.table[mfirst - 1].0.saturating_sub(12);
                    let mut opts = b.opts;
                    opts.allow_incomplete = true;
                    for bytewise in [false, true] {
                        let init: Vec<u32> = if bytewise { vec![1; start] } else { stream_graph::write_all_history(&b.bytes, &opts, start) };
                        jobs.push((format!("{} [{:?}] prefix {}; the marker takes {} bytes", it.name, k, if bytewise { "bytewise" } else { "at once" }, mlen), b.bytes.clone(), opts, init, Mode::Prefix { full: b.expect.clone(), table: b.table.clone(), header_len: b.header_len }));
                    }
                }
            }
        }
        par_for(jobs.len() as u64, |i| {
            let (label, bytes, opts, init, mode) = &jobs[i as usize];
            let g = stream_graph::explore_from(&ctx, bytes, opts, mode, label, init);
            ctx.eval(g.finish_probes);
            ctx.nontriv(1);
            let mut a = agg.lock().unwrap();
            a.0 += g.states;
            a.1 += g.edges;
            a.2 += g.finish_probes;
            a.3 = a.3.max(g.max_lag_seen);
        });
        ctx.scope_done(&format!("adversarial-long-symbol-tails/{}-graphs", jobs.len()), jobs.len() as u64, t1, "every chunking of the tail after a fixed prefix");
    }
    // sinks that accept only part of each write: the window is handed to the sink mid-stream whenever it wraps
    {
        let t2 = Instant::now();
        let mut jobs: Vec<(usize, usize, usize, usize)> = Vec::new();
        for (ii, inp) in ins.iter().enumerate() {
            if let Mode::Prefix { full, .. } = &inp.mode {
                if full.len() > 4096 && inp.bytes.len() < 6000 && !inp.label.contains("header declares") {
                    let n = inp.bytes.len();
                    for chunk in [1usize, 64, 1000] {
                        for piece in [1usize, 64, n] {
                            for trunc in [n, n - n / 4, n / 2] {
                                jobs.push((ii, chunk, piece, trunc));
                            }
                        }
                    }
                }
            }
        }
        par_for(jobs.len() as u64, |i| {
            let (ii, chunk, piece, trunc) = jobs[i as usize];
            let inp = &ins[ii];
            let (full, table, header_len) = match &inp.mode {
                Mode::Prefix { full, table, header_len } => (full, table, *header_len),
                _ => unreachable!(),
            };
            let mut ops: Vec<SOp> = inp.bytes[..trunc].chunks(piece).map(|c| SOp::WriteAll(Hex(c.to_vec()))).collect();
            ops.push(SOp::Finish);
            let case = Case::Stream { opts: inp.opts, sk: Sk { chunk, ..Sk::default() }, ops };
            let o = run_case(&case);
            ctx.eval(1);
            ctx.nontriv(1);
            let determined = if trunc >= header_len + 5 { table.iter().filter(|t| t.0 + 64 <= trunc).map(|t| t.1).max().unwrap_or(0) } else { 0 };
            let ok = o.ops.iter().all(|r| r.v.is_ok()) && full.starts_with(&o.out.0) && o.out.0.len() >= determined && (trunc < inp.bytes.len() || o.out.0 == *full);
            if !ok {
                ctx.violation(&case, &format!("{}: first {} of {} input bytes in {}-byte writes into a sink accepting {} byte(s) per call, then finish (incomplete input allowed): every call Ok, the sink holds a prefix of the complete output ({} bytes) of at least {} bytes", inp.label, trunc, inp.bytes.len(), piece, chunk, full.len(), determined), &o, None);
            }
        });
        ctx.scope_done("short-writing-sinks", jobs.len() as u64, t2, "outputs larger than the 4096-byte window into sinks accepting 1 / 64 / 1000 bytes per call");
    }
    // flush() in the middle: io::Write::flush may hand pending bytes to the sink or not, but what the sink holds stays a
    // prefix and the final output is unchanged - one flush at every input offset, and a flush after every 7-byte piece
    {
        let t3 = Instant::now();
        let mut jobs: Vec<(usize, usize)> = Vec::new();
        for (ii, inp) in ins.iter().enumerate() {
            if let Mode::Prefix { full, .. } = &inp.mode {
                if (full.len() > 4096 || inp.label.starts_with("mix+size [Header]")) && inp.bytes.len() < 400 && !inp.label.contains("header declares") {
                    for k in 0..=inp.bytes.len() {
                        jobs.push((ii, k));
                    }
                    jobs.push((ii, usize::MAX));
                }
            }
        }
        par_for(jobs.len() as u64, |i| {
            let (ii, k) = jobs[i as usize];
            let inp = &ins[ii];
            let full = match &inp.mode {
                Mode::Prefix { full, .. } => full,
                _ => unreachable!(),
            };
            let ops: Vec<SOp> = if k == usize::MAX {
                let mut v = Vec::new();
                for c in inp.bytes.chunks(7) {
                    v.push(SOp::WriteAll(Hex(c.to_vec())));
                    v.push(SOp::Flush);
                }
                v.push(SOp::Finish);
                v
            } else {
                vec![SOp::WriteAll(Hex(inp.bytes[..k].to_vec())), SOp::Flush, SOp::GetOutput, SOp::WriteAll(Hex(inp.bytes[k..].to_vec())), SOp::Flush, SOp::Finish]
            };
            let case = Case::Stream { opts: inp.opts, sk: Sk::default(), ops };
            let o = run_case(&case);
            ctx.eval(1);
            ctx.nontriv(1);
            let monotone = o.ops.windows(2).all(|w| w[0].sink_len <= w[1].sink_len);
            if !(o.ops.iter().all(|r| r.v.is_ok()) && o.out.0 == *full && monotone) {
                ctx.violation(&case, &format!("{}: {} then finish: every call Ok and the sink ends up with exactly the complete output ({} bytes)", inp.label, if k == usize::MAX { "flush() after every 7-byte write".to_string() } else { format!("write {} bytes, flush(), write the remaining {}, flush()", k, inp.bytes.len() - k) }, full.len()), &o, None);
            }
        });
        ctx.scope_done("flush-at-every-offset", jobs.len() as u64, t3, "one flush() at every input offset of the window-wrapping streams");
    }
    // gathered writes: the input offered through io::Write::write_vectored as two or three slices, for every pair of cut
    // points of the small inputs (a Stream may consume part of a slice; the caller re-offers the rest)
    {
        let t5 = Instant::now();
        let mut jobs: Vec<(usize, usize, usize)> = Vec::new();
        for (ii, inp) in ins.iter().enumerate() {
            let n = inp.bytes.len();
            if inp.label.contains("header declares") || n < 3 {
                continue;
            }
            if n <= 60 {
                for a in 0..=n {
                    for b in a..=n {
                        jobs.push((ii, a, b));
                    }
                }
            } else if n < 400 {
                for a in [1usize, 4, 5, 9, 12, 13, 17, 18, 19, 30, n / 2] {
                    for b in [a, a + 1, a + 9, n - 1, n] {
                        if a <= n && b <= n && a <= b {
                            jobs.push((ii, a, b));
                        }
                    }
                }
            }
        }
        par_for(jobs.len() as u64, |i| {
            let (ii, a, b) = jobs[i as usize];
            let inp = &ins[ii];
            let full = match &inp.mode {
                Mode::Prefix { full, .. } => full,
                _ => unreachable!(),
            };
            let parts = vec![Hex(inp.bytes[..a].to_vec()), Hex(inp.bytes[a..b].to_vec()), Hex(inp.bytes[b..].to_vec())];
            // (complete input and allow_incomplete off: finish must account for every byte, no look-ahead slack)
            let case = Case::Stream { opts: Opts { allow_incomplete: false, ..inp.opts }, sk: Sk::default(), ops: vec![SOp::WriteVectoredAll(parts), SOp::Finish] };
            let o = run_case(&case);
            ctx.eval(1);
            ctx.nontriv(1);
            if !(o.ops.iter().all(|r| r.v.is_ok()) && o.out.0 == *full) {
                ctx.violation(&case, &format!("{}: the input offered through write_vectored as slices [..{}], [{}..{}], [{}..] (re-offering what a call did not consume), then finish: every call Ok and exactly the complete output ({} bytes)", inp.label, a, a, b, b, full.len()), &o, None);
            }
        });
        ctx.scope_done("gathered-writes", jobs.len() as u64, t5, "every pair of cut points of inputs up to 60 bytes, selected pairs up to 400 bytes");
    }
    // long inputs (linear): megabytes through a window above 1 MiB that is not a multiple of 1 MiB, cut at a few places
    {
        use crate::refmodel::enc::{self, Sym};
        let t4 = Instant::now();
        let mut jobs: Vec<(String, Vec<u8>, Vec<u8>, usize, usize)> = Vec::new();
        for dict in tier.pick(vec![0x18_0000u32], vec![0x18_0000u32, 0x10_0000, 0x28_0000]) {
            let total = dict as usize + 300_000;
            let mut prog: Vec<Sym> = (0..400u32).map(|b| Sym::L((b * 67 + b / 7 + 3) as u8)).collect();
            let mut produced = 400usize;
            let mut k = 0u32;
            while produced < total {
                let l = (total - produced).min(273 - (k as usize * 13) % 100);
                if l >= 2 {
                    prog.push(Sym::M(if k % 3 == 0 { (produced.min(dict as usize) as u32).saturating_sub(1 + (k * 97) % 500).max(1) } else { 1 + (k * 31) % 390 }, l as u32));
                    produced += l;
                } else {
                    prog.push(Sym::L(k as u8));
                    produced += 1;
                }
                k += 1;
            }
            let e = enc::encode(3, 0, 2, dict as u64, &prog);
            let file = enc::lzma_file(3, 0, 2, dict, Some(e.expect.len() as u64), &e.payload);
            let n = file.len();
            for cut in [n, n - 7, n * 9 / 10, n / 2] {
                for piece in [4096usize, 65536, n] {
                    jobs.push((format!("{} bytes through a {}-byte window", e.expect.len(), dict), file.clone(), e.expect.clone(), cut, piece));
                }
            }
        }
        par_for(jobs.len() as u64, |i| {
            let (label, file, full, cut, piece) = &jobs[i as usize];
            let mut ops: Vec<SOp> = file[..*cut].chunks(*piece).map(|c| SOp::WriteAll(Hex(c.to_vec()))).collect();
            ops.push(SOp::Finish);
            let case = Case::Stream { opts: Opts { allow_incomplete: true, ..Opts::default() }, sk: Sk::default(), ops };
            let o = run_case(&case);
            ctx.eval(1);
            ctx.nontriv(1);
            let ok = o.ops.iter().all(|r| r.v.is_ok()) && full.starts_with(&o.out.0) && (*cut < file.len() || o.out.0 == *full) && o.out.0.len() + 20_000 >= full.len() * *cut / file.len();
            if !ok {
                ctx.violation(&case, &format!("{}: first {} of {} input bytes in {}-byte writes, then finish (incomplete input allowed): every call Ok and the sink holds a prefix of the complete output", label, cut, file.len(), piece), &o, None);
            }
        });
        ctx.scope_done("long-inputs", jobs.len() as u64, t4, "windows of 1.5 MiB (1 MiB, 2.5 MiB) that wrap");
    }
    let a = agg.lock().unwrap();
    ctx.set_extra("finish_probes", json!(a.2));
    ctx.set_extra("max_lag_seen_output_bytes", json!(a.3));
    ctx.scope_done(&format!("prefix-graphs/{}-inputs", ins.len()), ins.len() as u64, t0, &format!("{} states, {} edges, finish probed in every node ({})", a.0, a.1, a.2));
    ctx.finish()
}
